use mc::ent::{EntSpec, ScriptEnt};
use std::time::{Duration, UNIX_EPOCH};
fn main() {
    for (name, mt) in [("epoch-1s", UNIX_EPOCH - Duration::from_secs(1)), ("epoch-0.5s", UNIX_EPOCH - Duration::from_millis(500)), ("1901", UNIX_EPOCH - Duration::from_secs(2_177_452_800))] {
        let spec = EntSpec { len: 10, etag: Some(b"\"v1\"".to_vec()), mtime: Some(mt), headers: vec![], scripts: vec![] };
        let (e, _log) = ScriptEnt::new(spec);
        let req = http::Request::builder().method("GET").uri("/").header("if-modified-since", "Thu, 01 Jan 1970 00:00:00 GMT").body(()).unwrap();
        let r = std::panic::catch_unwind(std::panic::AssertUnwindSafe(|| http_serve::serve(e, &req)));
        match r {
            Ok(resp) => println!("{name}: status {} last-modified {:?}", resp.status(), resp.headers().get("last-modified")),
            Err(p) => println!("{name}: PANIC {}", mc::drive::panic_msg(p)),
        }
    }
    // a real file with a pre-epoch mtime
    let dir = tempfile::tempdir().unwrap();
    let p = dir.path().join("old");
    std::fs::write(&p, b"hello").unwrap();
    let f = std::fs::OpenOptions::new().write(true).open(&p).unwrap();
    f.set_modified(UNIX_EPOCH - Duration::from_secs(86_400)).unwrap();
    drop(f);
    let crf = http_serve::ChunkedReadFile::<bytes::Bytes, http_serve::BoxError>::new(std::fs::File::open(&p).unwrap(), http::HeaderMap::new()).unwrap();
    use http_serve::Entity;
    let r = std::panic::catch_unwind(std::panic::AssertUnwindSafe(|| crf.etag()));
    println!("file with 1969 mtime: etag -> {:?}", r.map_err(mc::drive::panic_msg));
}
