use std::io::Write;
fn main() {
    for level in [1u32, 6, 9] {
        let data: Vec<u8> = (0..200_000u64).map(mc::vbuf::content_byte).collect();
        let mut enc = flate2::GzBuilder::new().write(Vec::new(), flate2::Compression::new(level));
        let n = enc.write(&data).unwrap();
        enc.flush().unwrap();
        let out = enc.get_ref().clone();
        let d = mc::oracle::gzip::decode_prefix(&out).unwrap();
        println!("level {level}: write accepted {n}, after flush {} coded bytes decode to {} plain bytes", out.len(), d.plain.len());
        // second flush
        enc.flush().unwrap();
        let out = enc.get_ref().clone();
        let d = mc::oracle::gzip::decode_prefix(&out).unwrap();
        println!("   after a second flush: {} coded bytes decode to {}", out.len(), d.plain.len());
    }
}
