//! Reference evaluation of RFC 7232 conditionals, written from the text of C04 / C05.
//! Shares no code with `src/etag.rs` / `src/serving.rs`.

use super::date;

#[derive(Clone, Debug, PartialEq, Eq)]
pub struct Tag {
    pub weak: bool,
    /// The opaque part including both DQUOTEs.
    pub opaque: Vec<u8>,
}

/// `entity-tag = [ "W/" ] DQUOTE *etagc DQUOTE`, etagc = %x21 / %x23-7E / %x80-FF.
/// Deliberately also accepts SP inside the quotes (the statement of C04 speaks of "tags
/// containing commas or spaces").
pub fn parse_tag(v: &[u8]) -> Option<Tag> {
    let (weak, rest) = match v.strip_prefix(b"W/") {
        Some(r) => (true, r),
        None => (false, v),
    };
    if rest.len() < 2 || rest[0] != b'"' || rest[rest.len() - 1] != b'"' {
        return None;
    }
    let inner = &rest[1..rest.len() - 1];
    if inner
        .iter()
        .any(|&b| b == b'"' || b < 0x20 || b == 0x7f)
    {
        return None;
    }
    Some(Tag {
        weak,
        opaque: rest.to_vec(),
    })
}

pub fn strong_eq(a: &Tag, b: &Tag) -> bool {
    !a.weak && !b.weak && a.opaque == b.opaque
}

pub fn weak_eq(a: &Tag, b: &Tag) -> bool {
    a.opaque == b.opaque
}

#[derive(Clone, Debug, PartialEq, Eq)]
pub enum TagList {
    Star,
    List(Vec<Tag>),
    /// Grammatical only with recipient-side leniency (OWS before a comma, empty elements,
    /// leading/trailing OWS): nothing is asserted.
    Grey,
    Malformed,
}

/// Quoted-string aware `#entity-tag` splitter.
pub fn parse_list(v: &[u8]) -> TagList {
    if v == b"*" {
        return TagList::Star;
    }
    let mut tags = Vec::new();
    let mut grey = false;
    let mut i = 0;
    let n = v.len();
    let mut expect_tag = true; // at the start, or right after a comma
    let mut first = true;
    while i < n {
        let ows0 = i;
        while i < n && (v[i] == b' ' || v[i] == b'\t') {
            i += 1;
        }
        let had_ows = i > ows0;
        if i == n {
            grey = true; // trailing OWS
            break;
        }
        if v[i] == b',' {
            // A comma where a tag was expected is an empty element; OWS before a comma is
            // legal for recipients only.
            if expect_tag || had_ows {
                grey = true;
            }
            expect_tag = true;
            first = false;
            i += 1;
            continue;
        }
        if !expect_tag {
            return TagList::Malformed; // two tags without a comma
        }
        if had_ows && first {
            grey = true; // leading OWS
        }
        // a tag
        let start = i;
        if v[i..].starts_with(b"W/") {
            i += 2;
        }
        if i >= n || v[i] != b'"' {
            return TagList::Malformed;
        }
        i += 1;
        while i < n && v[i] != b'"' {
            i += 1;
        }
        if i >= n {
            return TagList::Malformed;
        }
        i += 1;
        match parse_tag(&v[start..i]) {
            Some(t) => tags.push(t),
            None => return TagList::Malformed,
        }
        expect_tag = false;
        first = false;
    }
    if expect_tag && !tags.is_empty() {
        grey = true; // trailing comma
    }
    if tags.is_empty() {
        return TagList::Malformed;
    }
    if grey {
        TagList::Grey
    } else {
        TagList::List(tags)
    }
}

#[derive(Clone, Copy, Debug, PartialEq, Eq, Hash)]
pub enum CondVerdict {
    PreconditionFailed,
    NotModified,
    Continue,
    /// Some validator in the request is not well-formed (or only leniently so): C04 asserts
    /// nothing (C13 still bounds the status).
    Unconstrained,
}

pub struct CondInput<'a> {
    pub etag: Option<&'a [u8]>,
    /// Unix seconds of the second in which the entity was last modified.
    pub lm_sec: Option<u64>,
    pub if_match: Option<&'a [u8]>,
    pub if_none_match: Option<&'a [u8]>,
    pub if_modified_since: Option<&'a [u8]>,
    pub if_unmodified_since: Option<&'a [u8]>,
}

/// Straight-line transcription of the statement of C04.
pub fn evaluate(i: &CondInput) -> CondVerdict {
    let etag = match i.etag {
        None => None,
        Some(e) => match parse_tag(e) {
            Some(t) => Some(t),
            None => return CondVerdict::Unconstrained,
        },
    };
    let im = i.if_match.map(parse_list);
    let inm = i.if_none_match.map(parse_list);
    for l in [&im, &inm].into_iter().flatten() {
        if matches!(l, TagList::Grey | TagList::Malformed) {
            return CondVerdict::Unconstrained;
        }
    }
    let date = |v: Option<&[u8]>| -> Result<Option<u64>, ()> {
        match v {
            None => Ok(None),
            Some(v) => date::parse_any(v).map(Some).ok_or(()),
        }
    };
    // A date header is only looked at when the statement says it is not ignored; a malformed
    // value in an ignored header asserts nothing either way, so be conservative: any
    // malformed date present makes the case unconstrained.
    let (Ok(ims), Ok(ius)) = (date(i.if_modified_since), date(i.if_unmodified_since)) else {
        return CondVerdict::Unconstrained;
    };

    // 412 exactly when If-Match is present and none of its tags strongly equals the ETag
    // (`*` always passes), or If-Match is absent and If-Unmodified-Since is earlier than the
    // second in which the entity was last modified.
    let failed = match &im {
        Some(TagList::Star) => false,
        Some(TagList::List(tags)) => match &etag {
            Some(e) => !tags.iter().any(|t| strong_eq(t, e)),
            None => true,
        },
        Some(_) => unreachable!(),
        None => match (ius, i.lm_sec) {
            (Some(since), Some(lm)) => since < lm,
            _ => false,
        },
    };
    if failed {
        return CondVerdict::PreconditionFailed;
    }
    // 304 exactly when If-None-Match is `*` or one of its tags weakly equals the ETag, or
    // If-None-Match is absent and the last-modified second is not later than
    // If-Modified-Since.
    let not_modified = match &inm {
        Some(TagList::Star) => true,
        Some(TagList::List(tags)) => match &etag {
            Some(e) => tags.iter().any(|t| weak_eq(t, e)),
            None => false,
        },
        Some(_) => unreachable!(),
        None => match (ims, i.lm_sec) {
            (Some(since), Some(lm)) => lm <= since,
            _ => false,
        },
    };
    if not_modified {
        CondVerdict::NotModified
    } else {
        CondVerdict::Continue
    }
}

#[derive(Clone, Copy, Debug, PartialEq, Eq, Hash)]
pub enum IfRangeVerdict {
    /// Range (if any) is honoured.
    Honour,
    /// Range must be ignored: complete 200.
    Refuse,
    /// HTTP-date exactly equal to Last-Modified: either (C05 says so).
    Either,
}

/// C05: honoured only for a strong tag byte-identical to the entity's strong ETag.
pub fn if_range(if_range: Option<&[u8]>, etag: Option<&[u8]>, lm_sec: Option<u64>) -> IfRangeVerdict {
    let Some(v) = if_range else {
        return IfRangeVerdict::Honour;
    };
    if let (Some(t), Some(e)) = (parse_tag(v), etag.and_then(parse_tag)) {
        if strong_eq(&t, &e) && Some(v) == etag {
            return IfRangeVerdict::Honour;
        }
    }
    if let (Some(d), Some(lm)) = (date::parse_any(v), lm_sec) {
        if d == lm {
            return IfRangeVerdict::Either;
        }
    }
    IfRangeVerdict::Refuse
}

#[cfg(test)]
mod tests {
    use super::*;
    #[test]
    fn lists() {
        assert_eq!(parse_list(b"*"), TagList::Star);
        assert!(matches!(parse_list(b"\"a, b\",W/\"c\""), TagList::List(v) if v.len() == 2));
        assert!(matches!(parse_list(b"\"a\", \t\"b\""), TagList::List(v) if v.len() == 2));
        assert_eq!(parse_list(b"\"a\" ,\"b\""), TagList::Grey);
        assert_eq!(parse_list(b"\"a\",,\"b\""), TagList::Grey);
        assert_eq!(parse_list(b"\"a\","), TagList::Grey);
        assert_eq!(parse_list(b"\"a\"\"b\""), TagList::Malformed);
        assert_eq!(parse_list(b"\"a"), TagList::Malformed);
        assert_eq!(parse_list(b"a"), TagList::Malformed);
        assert_eq!(parse_list(b""), TagList::Malformed);
    }
}
