//! Independent evaluator of RFC 7231 s.5.3.4 (Accept-Encoding: gzip vs identity), written
//! from the statement of C16. Shares no code with `src/lib.rs`.

#[derive(Clone, Debug, PartialEq, Eq)]
pub enum Parsed {
    /// (coding, quality in thousandths)
    List(Vec<(String, u32)>),
    /// Not within the sender grammar the statement quantifies over (nothing is asserted but
    /// the absence of panics).
    NotGrammatical,
}

fn is_tchar(b: u8) -> bool {
    b.is_ascii_alphanumeric() || b"!#$%&'*+-.^_`|~".contains(&b)
}

/// qvalue = ( "0" [ "." 0*3DIGIT ] ) / ( "1" [ "." 0*3("0") ] ) -> thousandths
pub fn qvalue(s: &[u8]) -> Option<u32> {
    let (int, frac) = match s.iter().position(|&b| b == b'.') {
        None => (s, &[][..]),
        Some(p) => (&s[..p], &s[p + 1..]),
    };
    if frac.len() > 3 || !frac.iter().all(|b| b.is_ascii_digit()) {
        return None;
    }
    let mut f: u32 = 0;
    for i in 0..3 {
        f = f * 10 + frac.get(i).map(|b| (b - b'0') as u32).unwrap_or(0);
    }
    match int {
        b"0" => Some(f),
        b"1" if f == 0 => Some(1000),
        _ => None,
    }
}

fn trim_ows(mut s: &[u8]) -> &[u8] {
    while let [b' ' | b'\t', r @ ..] = s {
        s = r;
    }
    while let [r @ .., b' ' | b'\t'] = s {
        s = r;
    }
    s
}

pub fn parse(v: &[u8]) -> Parsed {
    let mut out = Vec::new();
    if trim_ows(v).is_empty() {
        return Parsed::List(out); // "Accept-Encoding:" with an empty value is legal (#)
    }
    for el in v.split(|&b| b == b',') {
        let el = trim_ows(el);
        if el.is_empty() {
            return Parsed::NotGrammatical; // empty list element: recipient leniency only
        }
        let (coding, weight) = match el.iter().position(|&b| b == b';') {
            None => (el, None),
            Some(p) => (trim_ows(&el[..p]), Some(trim_ows(&el[p + 1..]))),
        };
        if coding.is_empty() || !coding.iter().all(|&b| is_tchar(b)) {
            return Parsed::NotGrammatical;
        }
        let q = match weight {
            None => 1000,
            Some(w) => {
                let Some(qv) = w.strip_prefix(b"q=") else {
                    return Parsed::NotGrammatical; // ("Q=" is grammatical too; not asserted)
                };
                match qvalue(qv) {
                    Some(q) => q,
                    None => return Parsed::NotGrammatical,
                }
            }
        };
        out.push((String::from_utf8_lossy(coding).to_string(), q));
    }
    Parsed::List(out)
}

/// `None`: the statement makes no claim (not grammatical, a coding listed twice, or a coding
/// spelled in another case). `Some(b)`: `should_gzip` must return `b`.
pub fn prefers_gzip(header: Option<&[u8]>) -> Option<bool> {
    let Some(v) = header else {
        return Some(false);
    };
    let Parsed::List(l) = parse(v) else {
        return None;
    };
    let mut seen = std::collections::HashSet::new();
    for (c, _) in &l {
        let lc = c.to_ascii_lowercase();
        if lc != *c && ["gzip", "identity"].contains(&lc.as_str()) {
            return None; // case variants: codings are case-insensitive per RFC; not asserted
        }
        if !seen.insert(lc) {
            return None; // duplicates: the statement does not say which one wins
        }
    }
    let q = |name: &str| l.iter().find(|(c, _)| c == name).map(|(_, q)| *q);
    let star = q("*");
    let gzip = q("gzip").or(star);
    // identity: own, else *'s, else "least-preferred acceptable": below every non-zero quality
    // but not zero. Compare in half-thousandths so that it has a representation.
    let identity2 = q("identity").or(star).map(|x| x * 2).unwrap_or(1);
    Some(match gzip {
        Some(g) => g > 0 && g * 2 >= identity2,
        None => false,
    })
}

#[cfg(test)]
mod tests {
    use super::*;
    #[test]
    fn basics() {
        assert_eq!(qvalue(b"0.5"), Some(500));
        assert_eq!(qvalue(b"1."), Some(1000));
        assert_eq!(qvalue(b"1.001"), None);
        assert_eq!(qvalue(b"0.0000"), None);
        assert_eq!(prefers_gzip(None), Some(false));
        assert_eq!(prefers_gzip(Some(b"")), Some(false));
        assert_eq!(prefers_gzip(Some(b"gzip")), Some(true));
        assert_eq!(prefers_gzip(Some(b"gzip;q=0.001")), Some(true));
        assert_eq!(prefers_gzip(Some(b"gzip;q=0, *")), Some(false));
        assert_eq!(prefers_gzip(Some(b"*")), Some(true));
        assert_eq!(prefers_gzip(Some(b"identity;q=1.0, gzip;q=0.5")), Some(false));
        assert_eq!(prefers_gzip(Some(b"identity;q=0.5, gzip;q=1.0")), Some(true));
        assert_eq!(prefers_gzip(Some(b"*;q=0")), Some(false));
        assert_eq!(prefers_gzip(Some(b"br")), Some(false));
        assert_eq!(prefers_gzip(Some(b"gzip, gzip;q=0")), None);
    }
}
