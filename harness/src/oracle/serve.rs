//! Reference model of `http_serve::serve` assembled from the statements of C01..C07, C12..C15
//! and C20, plus the runner that performs one real `serve` call and drains its body.
//!
//! The model returns the *set* of admissible response shapes wherever a statement leaves
//! freedom; `check` compares one observed execution with it and emits findings, each tagged
//! with the properties it violates. A property's check only reports findings carrying its tag.

use super::bodycmp::{match_stream, Match, Seg};
use super::cond::{self, CondInput, CondVerdict, IfRangeVerdict};
use super::multipart;
use super::range::{self, MultiZone, RangeClass};
use crate::drive::{drain, panic_msg, BodyTrace, HErr2, Obs, Sample};
use crate::ent::{EntSpec, Ev, Script, ScriptEnt, Tail};
use std::panic::{catch_unwind, AssertUnwindSafe};
use std::time::{Duration, SystemTime, UNIX_EPOCH};

#[derive(Clone, Debug, PartialEq, Eq, Hash)]
pub struct Req {
    pub method: String,
    /// (lower-case name, value bytes), in order; names may repeat.
    pub headers: Vec<(String, Vec<u8>)>,
}

impl Req {
    pub fn get(&self, name: &str) -> Option<&[u8]> {
        self.headers
            .iter()
            .find(|(k, _)| k == name)
            .map(|(_, v)| &v[..])
    }
    pub fn count(&self, name: &str) -> usize {
        self.headers.iter().filter(|(k, _)| k == name).count()
    }
    pub fn with(mut self, name: &str, v: &[u8]) -> Req {
        self.headers.push((name.to_string(), v.to_vec()));
        self
    }
    pub fn new(method: &str) -> Req {
        Req {
            method: method.to_string(),
            headers: Vec::new(),
        }
    }
    pub fn to_json(&self) -> serde_json::Value {
        let h: Vec<serde_json::Value> = self
            .headers
            .iter()
            .map(|(k, v)| serde_json::json!([k, crate::report::bytes_json(v)]))
            .collect();
        serde_json::json!({"method": self.method, "headers": h})
    }
    pub fn from_json(v: &serde_json::Value) -> Req {
        Req {
            method: v["method"].as_str().expect("method").to_string(),
            headers: v["headers"]
                .as_array()
                .expect("headers")
                .iter()
                .map(|h| {
                    (
                        h[0].as_str().expect("name").to_string(),
                        crate::report::bytes_from_json(&h[1]),
                    )
                })
                .collect(),
        }
    }
}

pub fn ent_to_json(e: &EntSpec) -> serde_json::Value {
    let mt = e.mtime.map(|m| match m.duration_since(UNIX_EPOCH) {
        Ok(d) => serde_json::json!([d.as_secs().to_string(), d.subsec_nanos()]),
        Err(e) => serde_json::json!([format!("-{}", e.duration().as_secs()), e.duration().subsec_nanos()]),
    });
    serde_json::json!({
        "len": e.len.to_string(),
        "etag": e.etag.as_ref().map(|t| crate::report::bytes_json(t)),
        "mtime": mt,
        "headers": e.headers.iter().map(|(k, v)| serde_json::json!([k, crate::report::bytes_json(v)])).collect::<Vec<_>>(),
        "scripts": e.scripts.iter().map(|s| s.to_json()).collect::<Vec<_>>(),
        "add_headers_mode": e.hdr_mode,
    })
}

pub fn ent_from_json(v: &serde_json::Value) -> EntSpec {
    EntSpec {
        len: v["len"].as_str().expect("len").parse().expect("u64"),
        etag: if v["etag"].is_null() {
            None
        } else {
            Some(crate::report::bytes_from_json(&v["etag"]))
        },
        mtime: if v["mtime"].is_null() {
            None
        } else {
            Some({
                let secs = v["mtime"][0].as_str().expect("secs");
                let nanos = v["mtime"][1].as_u64().expect("nanos") as u32;
                match secs.strip_prefix('-') {
                    Some(s) => UNIX_EPOCH - Duration::new(s.parse().expect("u64"), nanos),
                    None => UNIX_EPOCH + Duration::new(secs.parse().expect("u64"), nanos),
                }
            })
        },
        headers: v["headers"]
            .as_array()
            .expect("headers")
            .iter()
            .map(|h| {
                (
                    h[0].as_str().expect("name").to_string(),
                    crate::report::bytes_from_json(&h[1]),
                )
            })
            .collect(),
        scripts: v["scripts"]
            .as_array()
            .expect("scripts")
            .iter()
            .map(Script::from_json)
            .collect(),
        hdr_mode: v["add_headers_mode"].as_u64().unwrap_or(0) as u8,
    }
}

#[derive(Clone, Debug)]
pub struct ServeObs {
    /// `serve` itself panicked.
    pub panic: Option<String>,
    pub status: u16,
    pub headers: Vec<(String, Vec<u8>)>,
    pub body: BodyTrace,
    pub get_range: Vec<(u64, u64)>,
    pub add_headers: usize,
    /// Wall clock just before / after the `serve` call (for the clock-relative claims of C14).
    pub t0: SystemTime,
    pub t1: SystemTime,
}

impl ServeObs {
    pub fn hdr(&self, name: &str) -> Option<&[u8]> {
        self.headers
            .iter()
            .find(|(k, _)| k == name)
            .map(|(_, v)| &v[..])
    }
    pub fn hdr_count(&self, name: &str) -> usize {
        self.headers.iter().filter(|(k, _)| k == name).count()
    }
    pub fn to_json(&self) -> serde_json::Value {
        serde_json::json!({
            "serve_panic": self.panic,
            "status": self.status,
            "headers": self.headers.iter().map(|(k, v)| format!("{k}: {}", String::from_utf8_lossy(v))).collect::<Vec<_>>(),
            "body": self.body.to_json(),
            "get_range_calls": self.get_range.iter().map(|(a, b)| format!("{a}..{b}")).collect::<Vec<_>>(),
        })
    }
    /// Observation with the clock-derived parts removed (for the replay determinism check).
    pub fn stable_repr(&self) -> String {
        let h: Vec<String> = self
            .headers
            .iter()
            .filter(|(k, _)| k != "date" && k != "last-modified")
            .map(|(k, v)| format!("{k}: {}", String::from_utf8_lossy(v)))
            .collect();
        format!(
            "{:?}|{}|{:?}|{:?}|{:?}",
            self.panic, self.status, h, self.body.steps, self.get_range
        )
    }
}

pub fn build_request(req: &Req) -> Option<http::Request<()>> {
    let mut b = http::Request::builder()
        .method(http::Method::from_bytes(req.method.as_bytes()).ok()?)
        .uri("/");
    for (k, v) in &req.headers {
        b = b.header(
            http::header::HeaderName::from_bytes(k.as_bytes()).ok()?,
            http::header::HeaderValue::from_bytes(v).ok()?,
        );
    }
    b.body(()).ok()
}

/// One real execution: `serve(entity, &request)`, then drain the body.
/// Fallback mode (set by ./check after the explorer process was killed by an allocation failure):
/// entities longer than 16 MiB are skipped. The harness "serves" ranges of up to 2^64-1 bytes as a
/// few giant *virtual* chunks, which works as long as the subject only asks a chunk for its
/// length. A subject that copies entity data (legitimate for real, memory-sized chunks) would try
/// to allocate exabytes, and an allocation failure aborts the process instead of giving a verdict.
pub fn no_giant_entities() -> bool {
    static F: std::sync::OnceLock<bool> = std::sync::OnceLock::new();
    *F.get_or_init(|| std::env::var_os("VERIF_NO_GIANT").is_some())
}

pub fn run_serve(req: &Req, ent: &EntSpec, extra_polls: usize, horizon: usize) -> Option<ServeObs> {
    run_serve_with(req, ent, extra_polls, horizon, false)
}

/// `in_tokio`: the body is drained inside a tokio task instead of by the hand-rolled poll loop.
pub fn run_serve_with(req: &Req, ent: &EntSpec, extra_polls: usize, horizon: usize, in_tokio: bool) -> Option<ServeObs> {
    if ent.len > (1 << 24) && no_giant_entities() {
        return None;
    }
    let request = build_request(req)?;
    // the whole execution (serve() and draining the body) runs under the hang watchdog
    let (rq, en) = (req.clone(), ent.clone());
    let case: crate::report::CaseFn = Box::new(move || serde_json::json!({"engine": "serve_mc", "request": rq.to_json(), "entity": ent_to_json(&en), "extra_polls": extra_polls, "in_tokio_task": in_tokio}));
    crate::report::watched(case, || run_serve_inner(request, ent, extra_polls, horizon, in_tokio))
}

fn run_serve_inner(request: http::Request<()>, ent: &EntSpec, extra_polls: usize, horizon: usize, in_tokio: bool) -> Option<ServeObs> {
    let (e, log) = ScriptEnt::new(ent.clone());
    let t0 = SystemTime::now();
    let r = catch_unwind(AssertUnwindSafe(|| http_serve::serve(e, &request)));
    let t1 = SystemTime::now();
    let empty = BodyTrace {
        steps: vec![],
        last: None,
        stuck: false,
        horizon: false,
        sample_panic: None,
    };
    let resp = match r {
        Err(p) => {
            let l = log.lock().unwrap();
            return Some(ServeObs {
                panic: Some(panic_msg(p)),
                status: 0,
                headers: vec![],
                body: empty,
                get_range: l.get_range.clone(),
                add_headers: l.add_headers,
                t0,
                t1,
            });
        }
        Ok(r) => r,
    };
    let (parts, body) = resp.into_parts();
    let headers = parts
        .headers
        .iter()
        .map(|(k, v)| (k.as_str().to_string(), v.as_bytes().to_vec()))
        .collect();
    let body = if in_tokio { crate::drive::drain_in_tokio(body, extra_polls, horizon) } else { drain(body, extra_polls, horizon) };
    let l = log.lock().unwrap();
    Some(ServeObs {
        panic: None,
        status: parts.status.as_u16(),
        headers,
        body,
        get_range: l.get_range.clone(),
        add_headers: l.add_headers,
        t0,
        t1,
    })
}

// ---------------------------------------------------------------------------------------
// Model

#[derive(Clone, Debug, PartialEq, Eq, Hash)]
pub enum Shape {
    Method405,
    Bad400,
    Failed412,
    NotModified304,
    Unsat416,
    TooLarge413,
    Full,
    Single(u64, u64),
    Multi(Vec<(u64, u64)>),
}

impl Shape {
    pub fn status(&self) -> u16 {
        match self {
            Shape::Method405 => 405,
            Shape::Bad400 => 400,
            Shape::Failed412 => 412,
            Shape::NotModified304 => 304,
            Shape::Unsat416 => 416,
            Shape::TooLarge413 => 413,
            Shape::Full => 200,
            Shape::Single(..) | Shape::Multi(_) => 206,
        }
    }
    pub fn class(&self) -> &'static str {
        match self {
            Shape::Method405 => "405",
            Shape::Bad400 => "400",
            Shape::Failed412 => "412",
            Shape::NotModified304 => "304",
            Shape::Unsat416 => "416",
            Shape::TooLarge413 => "413",
            Shape::Full => "200",
            Shape::Single(..) => "206-single",
            Shape::Multi(_) => "206-multi",
        }
    }
}

#[derive(Clone, Copy, Debug, PartialEq, Eq, Hash)]
pub enum MethodClass {
    Get,
    Head,
    Other,
}

#[derive(Clone, Debug)]
pub struct Model {
    pub method: MethodClass,
    pub cond: CondVerdict,
    pub gate: IfRangeVerdict,
    /// Admissible shapes given that the conditional stage said "continue".
    pub shapes: Vec<Shape>,
    /// The range stage is not constrained by C03 (grey-zone syntax, L = 0, repeated lines).
    pub range_free: bool,
    /// Some request header of interest occurs more than once: only C13 applies.
    pub repeated: bool,
}

/// Second of the modification time. Times before the epoch (used only by the totality check)
/// are reported as second 0; no conditional verdict is asserted for them (see `model`).
pub fn lm_sec(ent: &EntSpec) -> Option<u64> {
    ent.mtime.map(|m| m.duration_since(UNIX_EPOCH).map(|d| d.as_secs()).unwrap_or(0))
}

pub fn pre_epoch(ent: &EntSpec) -> bool {
    ent.mtime.map(|m| m < UNIX_EPOCH).unwrap_or(false)
}

const COND_HDRS: [&str; 4] = [
    "if-match",
    "if-none-match",
    "if-modified-since",
    "if-unmodified-since",
];

/// Upper bound of the multipart body length over every boundary an implementation may pick.
fn multipart_len_upper(ranges: &[(u64, u64)], len: u64, hdrs: &[(String, Vec<u8>)]) -> u128 {
    let hl: u128 = hdrs
        .iter()
        .map(|(k, v)| (k.len() + 2 + v.len() + 2) as u128)
        .sum();
    let mut t: u128 = 0;
    for (a, b) in ranges {
        let cr = format!("Content-Range: bytes {a}-{b}/{len}\r\n").len() as u128;
        t += 2 + 2 + 70 + 2 + cr + hl + 2 + (*b - *a) as u128 + 1;
    }
    t + 2 + 2 + 70 + 2 + 2
}

pub fn model(req: &Req, ent: &EntSpec) -> Model {
    let method = match req.method.as_str() {
        "GET" => MethodClass::Get,
        "HEAD" => MethodClass::Head,
        _ => MethodClass::Other,
    };
    let repeated = COND_HDRS
        .iter()
        .chain(["range", "if-range"].iter())
        .any(|h| req.count(h) > 1);
    let lm = lm_sec(ent);
    let cond = cond::evaluate(&CondInput {
        etag: ent.etag.as_deref(),
        lm_sec: lm,
        if_match: req.get("if-match"),
        if_none_match: req.get("if-none-match"),
        if_modified_since: req.get("if-modified-since"),
        if_unmodified_since: req.get("if-unmodified-since"),
    });
    // A tag list given as SEVERAL If-Match / If-None-Match lines: the statement does not say
    // whether only the first line counts (what this crate does) or the lines form one list (what
    // RFC 7230 s.3.2.2 says). Where both readings give the same verdict, that verdict is asserted.
    let only_tag_lines_repeated = repeated && ["if-modified-since", "if-unmodified-since", "range", "if-range"].iter().all(|h| req.count(h) <= 1);
    let (cond, repeated) = if only_tag_lines_repeated {
        let join = |name: &str| -> Option<Vec<u8>> {
            let lines: Vec<&[u8]> = req.headers.iter().filter(|(k, _)| k == name).map(|(_, v)| &v[..]).collect();
            if lines.is_empty() { None } else { Some(lines.join(&b", "[..])) }
        };
        let (jm, jn) = (join("if-match"), join("if-none-match"));
        let joined = cond::evaluate(&CondInput {
            etag: ent.etag.as_deref(),
            lm_sec: lm,
            if_match: jm.as_deref(),
            if_none_match: jn.as_deref(),
            if_modified_since: req.get("if-modified-since"),
            if_unmodified_since: req.get("if-unmodified-since"),
        });
        if joined == cond && cond != CondVerdict::Unconstrained { (cond, false) } else { (cond, true) }
    } else {
        (cond, repeated)
    };
    // the statements about dates are made for times an HTTP-date can express; for a pre-epoch
    // modification time only totality (C13) is asserted when a date header takes part
    let cond = if pre_epoch(ent) && (req.get("if-modified-since").is_some() || req.get("if-unmodified-since").is_some()) {
        CondVerdict::Unconstrained
    } else {
        cond
    };
    let gate = cond::if_range(req.get("if-range"), ent.etag.as_deref(), lm);
    let mut range_free = false;
    let mut shapes: Vec<Shape> = Vec::new();
    let mut from_range = |shapes: &mut Vec<Shape>| match range::classify(req.get("range")) {
        RangeClass::Absent | RangeClass::MustIgnore => shapes.push(Shape::Full),
        RangeClass::Specs { specs, grey } => {
            if grey || ent.len == 0 {
                range_free = true;
                return;
            }
            let r = range::resolve(&specs, ent.len);
            if r.has_inverted || r.has_huge {
                shapes.push(Shape::Full);
            }
            match r.ranges.len() {
                0 => shapes.push(Shape::Unsat416),
                1 => shapes.push(Shape::Single(r.ranges[0].0, r.ranges[0].1)),
                _ => {
                    let zone = range::multi_zone(&r.ranges, ent.len);
                    let hdrs: &[(String, Vec<u8>)] = if req.get("if-range").is_some() {
                        &[]
                    } else {
                        &ent.headers
                    };
                    let overflow =
                        multipart_len_upper(&r.ranges, ent.len, hdrs) > u64::MAX as u128;
                    if zone != MultiZone::MustFull {
                        shapes.push(Shape::Multi(r.ranges.clone()));
                        if overflow {
                            shapes.push(Shape::TooLarge413);
                            shapes.push(Shape::Full);
                        }
                    }
                    if zone != MultiZone::MustMultipart {
                        shapes.push(Shape::Full);
                    }
                }
            }
        }
    };
    match gate {
        IfRangeVerdict::Refuse => shapes.push(Shape::Full),
        IfRangeVerdict::Honour => from_range(&mut shapes),
        IfRangeVerdict::Either => {
            shapes.push(Shape::Full);
            from_range(&mut shapes);
        }
    }
    shapes.dedup();
    Model {
        method,
        cond,
        gate,
        shapes,
        range_free,
        repeated,
    }
}

// ---------------------------------------------------------------------------------------
// Fault model of one entity stream under exact-length accounting (C07)

#[derive(Clone, Copy, Debug, PartialEq, Eq, Hash)]
pub enum Fate {
    Clean,
    /// Ended with bytes still owed.
    Short,
    /// The entity's stream failed.
    EntErr,
    /// Produced more than the range.
    Long,
    /// Failed (yielded `Err`) right after the whole range had been delivered. The stream
    /// "fails", so the statement's first sentence applies: the body must report an error.
    LateErr,
    /// Never terminates (not generated by the explorers; nothing asserted).
    Hang,
}

/// Returns the fate of a stream that plays `script` for a range of `n` bytes, and the number
/// of bytes it legitimately delivers before the fault.
pub fn fate(n: u64, script: &Script) -> (Fate, u64) {
    let mut cum: u128 = 0;
    let step = |e: &Ev, cum: &mut u128| -> Option<Fate> {
        match e {
            Ev::Data(d) => {
                if *cum + *d as u128 > n as u128 {
                    return Some(Fate::Long);
                }
                *cum += *d as u128;
                None
            }
            Ev::Pending => None,
            Ev::Err => Some(if *cum == n as u128 {
                Fate::LateErr
            } else {
                Fate::EntErr
            }),
        }
    };
    for e in &script.evs {
        if let Some(f) = step(e, &mut cum) {
            return (f, cum as u64);
        }
    }
    match (script.tail, script.evs.last()) {
        (Tail::Repeat, Some(Ev::Data(d))) if *d > 0 => (Fate::Long, cum as u64),
        (Tail::Repeat, Some(Ev::Err)) => unreachable!(),
        (Tail::Repeat, Some(_)) => (Fate::Hang, cum as u64),
        _ => {
            if cum < n as u128 {
                (Fate::Short, cum as u64)
            } else {
                (Fate::Clean, n)
            }
        }
    }
}

// ---------------------------------------------------------------------------------------
// Findings

#[derive(Clone, Debug)]
pub struct Finding {
    pub props: Vec<&'static str>,
    /// Stable class of the failure (for de-duplication and the known-findings file).
    pub key: String,
    pub msg: String,
}

fn f(props: &[&'static str], key: impl Into<String>, msg: impl Into<String>) -> Finding {
    Finding {
        props: props.to_vec(),
        key: key.into(),
        msg: msg.into(),
    }
}

pub const ALLOWED_STATUS: [u16; 8] = [200, 206, 304, 400, 405, 412, 413, 416];

fn parse_u64_dec(v: &[u8]) -> Option<u64> {
    if v.is_empty() || !v.iter().all(|b| b.is_ascii_digit()) {
        return None;
    }
    std::str::from_utf8(v).ok()?.parse().ok()
}

/// Which admissible shape does the observation claim to be? Decided from status and headers
/// only (never from the body).
fn observed_shape(obs: &ServeObs, m: &Model) -> Result<Shape, String> {
    Ok(match obs.status {
        405 => Shape::Method405,
        400 => Shape::Bad400,
        412 => Shape::Failed412,
        304 => Shape::NotModified304,
        416 => Shape::Unsat416,
        413 => Shape::TooLarge413,
        200 => Shape::Full,
        206 => {
            let ct_multi = obs
                .hdr("content-type")
                .map(|c| {
                    String::from_utf8_lossy(c)
                        .to_ascii_lowercase()
                        .starts_with("multipart/byteranges")
                })
                .unwrap_or(false);
            if let Some(cr) = obs.hdr("content-range") {
                let (a, b, _l) = multipart::parse_single_content_range(cr).ok_or_else(|| {
                    format!("unparseable Content-Range {:?}", String::from_utf8_lossy(cr))
                })?;
                if a > u64::MAX as u128 || b > u64::MAX as u128 {
                    return Err("Content-Range numbers exceed 64 bits".into());
                }
                Shape::Single(a as u64, b as u64)
            } else if ct_multi {
                // The ranges of a multipart response are only known from the model.
                match m.shapes.iter().find(|s| matches!(s, Shape::Multi(_))) {
                    Some(s) => s.clone(),
                    None => Shape::Multi(vec![]),
                }
            } else {
                return Err("206 with neither Content-Range nor multipart/byteranges".into());
            }
        }
        s => return Err(format!("status {s}")),
    })
}

/// Compares one execution with the model. Appends findings.
pub fn check(req: &Req, ent: &EntSpec, obs: &ServeObs, m: &Model, out: &mut Vec<Finding>) {
    let has_range = req.get("range").is_some();
    // ---- totality (C13) --------------------------------------------------------------
    if let Some(p) = &obs.panic {
        // serve() crashing on a request inside a property's quantifier leaves that property
        // without any response to hold on: it counts for every serve property.
        let mut props = vec!["C13", "C01", "C02", "C04", "C05", "C06", "C07", "C12", "C14", "C15"];
        if has_range {
            props.push("C03");
        }
        out.push(f(&props, format!("serve-panic:{}", panic_class(p)), format!("serve() panicked: {p}")));
        return;
    }
    if let Some(p) = &obs.body.sample_panic {
        out.push(f(&["C13", "C12"], format!("hint-panic:{}", panic_class(p)), format!("size_hint/is_end_stream panicked: {p}")));
    }
    if !ALLOWED_STATUS.contains(&obs.status) {
        out.push(f(&["C13"], format!("status:{}", obs.status), format!("status {} is outside the documented set", obs.status)));
        return;
    }
    let term = obs.body.first_terminal();
    for (i, (_, o)) in obs.body.steps.iter().enumerate() {
        if let Obs::Panic(p) = o {
            let after = term.map(|t| i > t).unwrap_or(false);
            // A body that panics instead of delivering what the response announced fails every
            // property about that delivery, not only the totality property.
            let props: &[&'static str] = if after { &["C20", "C13"] } else { &["C13", "C01", "C02", "C06", "C07", "C12"] };
            out.push(f(
                props,
                format!("drain-panic:{}:{}", if after { "after-terminal" } else { "before-terminal" }, panic_class(p)),
                format!("polling the body panicked at poll {i}{}: {p}", if after { " (after the terminal event)" } else { "" }),
            ));
        }
    }
    if obs.body.stuck {
        out.push(f(&["C13"], "stuck", "body returned Pending without waking the waker"));
    }
    if obs.body.horizon {
        out.push(f(&["C13", "C07"], "horizon", "body did not terminate within the poll horizon"));
    }
    // ---- terminated bodies stay terminated (C20) -------------------------------------
    // Premise of the statement: the entity's own streams stay finished once they have failed. A
    // script that goes on after its own `Err` does not (C12's end flag is still judged on it).
    let keeps_going_after_err = ent.scripts.iter().any(|s| s.evs.iter().position(|e| *e == Ev::Err).map(|p| p + 1 < s.evs.len()).unwrap_or(false));
    if let Some(t) = term.filter(|_| !keeps_going_after_err) {
        for (i, (_, o)) in obs.body.steps.iter().enumerate().skip(t + 1) {
            // "data" = bytes: an empty frame carries none.
            if o.data_len() > 0 {
                out.push(f(&["C20"], "data-after-terminal", format!("data frame at poll {i}, after the terminal event at poll {t}")));
                break;
            }
        }
    }
    // ---- 405 -------------------------------------------------------------------------
    if m.method == MethodClass::Other {
        if obs.status != 405 {
            out.push(f(&["C13"], "405-expected", format!("method {} answered with {}", req.method, obs.status)));
        } else {
            let allow = obs.hdr("allow").map(|a| String::from_utf8_lossy(a).to_ascii_lowercase()).unwrap_or_default();
            let toks: Vec<&str> = allow.split(',').map(|t| t.trim()).collect();
            if !toks.contains(&"get") || !toks.contains(&"head") {
                out.push(f(&["C13"], "405-allow", format!("405 Allow header is {allow:?}")));
            }
        }
        if !obs.get_range.is_empty() {
            out.push(f(&["C13"], "405-read", "entity data was read for a non-GET/HEAD method"));
        }
        check_framing(obs, MethodClass::Other, out);
        return;
    } else if obs.status == 405 {
        out.push(f(&["C13", "C04"], "405-unexpected", "GET/HEAD answered with 405"));
        return;
    }
    // ---- framing (C01), independent of the model ---------------------------------------
    check_framing(obs, m.method, out);

    if m.repeated {
        return;
    }
    // ---- conditional stage (C04) -------------------------------------------------------
    let observed_cond = match obs.status {
        412 => Some(CondVerdict::PreconditionFailed),
        304 => Some(CondVerdict::NotModified),
        _ => None,
    };
    match m.cond {
        CondVerdict::Unconstrained => {
            if observed_cond.is_some() || obs.status == 400 {
                return; // nothing more can be said
            }
        }
        expected => {
            let got = observed_cond.unwrap_or(CondVerdict::Continue);
            if obs.status == 400 {
                out.push(f(&["C04"], "cond:400", "well-formed conditional request answered with 400".to_string()));
                return;
            }
            if got != expected {
                out.push(f(
                    &["C04"],
                    format!("cond:{expected:?}->{got:?}"),
                    format!("conditional headers require {expected:?}, response is {} ({got:?})", obs.status),
                ));
                return;
            }
            if expected != CondVerdict::Continue {
                return;
            }
        }
    }
    // ---- range stage (C03 / C05) -----------------------------------------------------
    let shape = match observed_shape(obs, m) {
        Ok(s) => s,
        Err(e) => {
            out.push(f(&["C02", "C03"], "shape", e));
            return;
        }
    };
    let owner: &'static str = if req.get("if-range").is_some() { "C05" } else { "C03" };
    let shape_ok = m.range_free || m.shapes.contains(&shape);
    if !shape_ok {
        let mut props = vec![owner];
        if owner == "C03" && matches!(shape, Shape::Single(..)) {
            props.push("C02"); // Content-Range does not denote what was asked for
        }
        out.push(f(
            &props,
            format!("shape:{}->{}", m.shapes.iter().map(|s| s.class()).collect::<Vec<_>>().join("|"), shape.class()),
            format!("admissible: {:?}; response is {} {:?}", m.shapes, obs.status, shape),
        ));
    }
    if !shape_ok && shape == Shape::Multi(vec![]) {
        return;
    }
    // ---- shape self-consistency (C01, C02, C06, C07, C12) ----------------------------------
    check_shape(req, ent, obs, m, &shape, out);
}

fn panic_class(p: &str) -> String {
    // Stable part of a panic message: strip numbers.
    let mut s: String = p.chars().filter(|c| !c.is_ascii_digit()).collect();
    s.truncate(60);
    s
}

/// C01: what the response announces is what the body delivers.
fn check_framing(obs: &ServeObs, method: MethodClass, out: &mut Vec<Finding>) {
    let delivered = obs.body.delivered();
    let clean = matches!(obs.body.first_terminal().map(|t| &obs.body.steps[t].1), Some(Obs::End));
    let hint0: Option<Sample> = obs.body.steps.first().map(|(s, _)| *s);
    let cl = obs.hdr("content-length");
    if obs.status == 200 || obs.status == 206 {
        let Some(cl) = cl else {
            out.push(f(&["C01"], "cl-missing", format!("{} without Content-Length", obs.status)));
            return;
        };
        let Some(n) = parse_u64_dec(cl) else {
            out.push(f(&["C01"], "cl-syntax", format!("Content-Length {:?}", String::from_utf8_lossy(cl))));
            return;
        };
        if obs.hdr_count("content-length") != 1 {
            out.push(f(&["C01"], "cl-dup", "more than one Content-Length"));
        }
        if method == MethodClass::Head {
            return; // C15 compares with GET
        }
        if let Some(h) = hint0 {
            if h.lower != n || h.upper != Some(n) {
                out.push(f(&["C01", "C12"], "cl-vs-hint", format!("Content-Length {n} but initial size hint {:?}..{:?}", h.lower, h.upper)));
            }
        }
        // never more than announced, at any step
        let mut run: u128 = 0;
        for (i, (_, o)) in obs.body.steps.iter().enumerate() {
            run += o.data_len() as u128;
            if run > n as u128 {
                out.push(f(&["C01", "C07"], "over-delivery", format!("after poll {i} the body has delivered {run} bytes, Content-Length is {n}")));
                break;
            }
        }
        if clean && delivered != n as u128 {
            out.push(f(&["C01"], "cl-vs-delivered", format!("Content-Length {n}, clean end after {delivered} bytes")));
        }
    } else {
        if let Some(h) = hint0 {
            if h.upper != Some(h.lower) {
                out.push(f(&["C01", "C12"], "inexact-hint", format!("status {} body hint {:?}..{:?} is not exact", obs.status, h.lower, h.upper)));
            } else if clean && delivered != h.lower as u128 {
                out.push(f(&["C01", "C12"], "hint-vs-delivered", format!("status {} body announced {} bytes, delivered {delivered}", obs.status, h.lower)));
            }
            if let Some(cl) = cl.and_then(parse_u64_dec) {
                if cl != h.lower && method != MethodClass::Head {
                    out.push(f(&["C01"], "cl-vs-hint", format!("Content-Length {cl} but size hint {}", h.lower)));
                }
            }
        }
        if !clean && method != MethodClass::Head {
            out.push(f(&["C01"], "literal-body-not-clean", format!("status {} body did not end cleanly", obs.status)));
        }
    }
}

/// Per-call fates, judged against the ranges the model expects to be fetched.
fn body_fate(expected_calls: &[(u64, u64)], ent: &EntSpec) -> (Fate, usize) {
    for (k, (a, b)) in expected_calls.iter().enumerate() {
        let n = b - a;
        let script = if ent.scripts.is_empty() {
            Script::whole(n)
        } else {
            ent.scripts[k.min(ent.scripts.len() - 1)].clone()
        };
        let (fa, _) = fate(n, &script);
        if fa != Fate::Clean {
            return (fa, k);
        }
    }
    (Fate::Clean, expected_calls.len())
}

fn check_shape(req: &Req, ent: &EntSpec, obs: &ServeObs, m: &Model, shape: &Shape, out: &mut Vec<Finding>) {
    let l = ent.len;
    let is_get = m.method == MethodClass::Get;
    let term = obs.body.first_terminal();
    let term_obs = term.map(|t| &obs.body.steps[t].1);
    let pre_terminal = || obs.body.steps[..term.unwrap_or(obs.body.steps.len())].iter().map(|(_, o)| o);
    // Expected get_range calls (half-open), in order.
    let calls: Vec<(u64, u64)> = match shape {
        Shape::Full => vec![(0, l)],
        Shape::Single(a, b) => vec![(*a, b.wrapping_add(1))],
        Shape::Multi(r) => r.iter().map(|(a, b)| (*a, *b + 1)).collect(),
        _ => vec![],
    };
    match shape {
        Shape::Full => {
            if obs.hdr("content-range").is_some() {
                out.push(f(&["C02", "C05", "C14"], "200-content-range", "200 carries Content-Range"));
            }
            if let Some(n) = obs.hdr("content-length").and_then(parse_u64_dec) {
                if n != l {
                    out.push(f(&["C01", "C02"], "200-cl", format!("200 Content-Length {n}, entity length {l}")));
                }
            }
        }
        Shape::Single(a, b) => {
            let cr = obs.hdr("content-range").unwrap();
            let (_, _, ll) = multipart::parse_single_content_range(cr).unwrap();
            if !(a <= b && (*b as u128) < ll && ll == l as u128) {
                out.push(f(&["C02", "C03"], "content-range-invalid", format!("Content-Range {:?} with entity length {l}", String::from_utf8_lossy(cr))));
                return;
            }
            if let Some(n) = obs.hdr("content-length").and_then(parse_u64_dec) {
                if n != b - a + 1 {
                    out.push(f(&["C01", "C02"], "206-cl", format!("Content-Range {a}-{b} but Content-Length {n}")));
                }
            }
            if obs.hdr_count("content-range") != 1 {
                out.push(f(&["C02"], "content-range-dup", "more than one Content-Range"));
            }
        }
        Shape::Multi(_) => {
            if obs.hdr("content-range").is_some() {
                out.push(f(&["C06"], "multi-top-content-range", "multipart response carries a top-level Content-Range"));
            }
        }
        Shape::Unsat416 => {
            let want = format!("bytes */{l}");
            if obs.hdr("content-range") != Some(want.as_bytes()) {
                out.push(f(&["C03"], "416-content-range", format!("416 Content-Range {:?}, expected {want:?}", obs.hdr("content-range").map(String::from_utf8_lossy))));
            }
        }
        _ => {}
    }
    if !is_get {
        return;
    }
    if !matches!(shape, Shape::Full | Shape::Single(..) | Shape::Multi(_)) {
        if !obs.get_range.is_empty() {
            out.push(f(&["C02", "C15"], "read-without-body", format!("status {} but entity data was read", obs.status)));
        }
        return;
    }
    // get_range discipline: exactly the expected calls, in order (a faulty earlier part may cut
    // the sequence short).
    let (fa, fault_call) = body_fate(&calls, ent);
    let owner_bytes: &'static str = if matches!(shape, Shape::Multi(_)) { "C06" } else { "C02" };
    // An implementation may or may not ask for an empty range.
    let empty_ok = calls.len() == 1 && calls[0].0 == calls[0].1 && obs.get_range.is_empty();
    // ... and if it did not ask, there is no entity stream that could fail or run long: the
    // statement is about "the stream an entity returns for a requested range".
    let (fa, fault_call) = if empty_ok { (Fate::Clean, 0) } else { (fa, fault_call) };
    let is_prefix = obs.get_range.len() <= calls.len() && obs.get_range[..] == calls[..obs.get_range.len()];
    let calls_ok = empty_ok
        || (is_prefix
            && match fa {
                Fate::Clean => obs.get_range.len() == calls.len(),
                Fate::Short | Fate::EntErr => obs.get_range.len() == fault_call + 1,
                Fate::LateErr => obs.get_range.len() == fault_call + 1,
                Fate::Long => obs.get_range.len() > fault_call,
                Fate::Hang => true,
            });
    if !calls_ok {
        out.push(f(&[owner_bytes], "get-range-calls", format!("get_range calls {:?}, expected {:?} (entity stream fate {fa:?} at call {fault_call})", obs.get_range, calls)));
    }
    // byte stream
    let entity_hdrs: Option<&[(String, Vec<u8>)]> = if req.get("if-range").is_some() { None } else { Some(&ent.headers) };
    let (matched, announced): (Match, Option<u128>) = match shape {
        Shape::Full | Shape::Single(..) => {
            let (a, e) = calls[0];
            let exp = vec![Seg::Ent(a, e - a)];
            (match_stream(&exp, pre_terminal()), Some((e - a) as u128))
        }
        Shape::Multi(r) => {
            let ct = obs.hdr("content-type").unwrap_or(b"");
            match multipart::boundary_of(ct) {
                Err(e) => {
                    out.push(f(&["C06"], "multi-content-type", e));
                    return;
                }
                Ok(bd) => match multipart::verify(&bd, pre_terminal(), r, l, entity_hdrs) {
                    Err(e) => (Match::Mismatch(e), None),
                    Ok(v) if v.complete => (Match::Exact, Some(v.total)),
                    Ok(v) => (Match::Prefix { delivered: v.total }, None),
                },
            }
        }
        _ => unreachable!(),
    };
    let fault_props: &[&'static str] = &["C07"];
    match (&matched, fa) {
        (Match::Mismatch(e), _) => {
            // a multipart body that is not "exactly those ranges in request order" also breaks C03
            let mut props: Vec<&'static str> = if fa == Fate::Clean { vec![owner_bytes] } else { vec![owner_bytes, "C07"] };
            if matches!(shape, Shape::Multi(_)) {
                props.push("C03");
                props.push("C02"); // entity bytes other than the ones the part headers name
            }
            out.push(f(&props, "body-bytes", format!("body bytes wrong: {e}")));
        }
        (Match::Extra { extra }, _) => {
            let props: Vec<&'static str> = if fa == Fate::Clean { vec![owner_bytes, "C01"] } else { vec!["C07", owner_bytes] };
            out.push(f(&props, "body-extra", format!("{extra} bytes beyond the expected body")));
        }
        (Match::Exact, Fate::Clean) => {
            if term_obs != Some(&Obs::End) {
                out.push(f(&[owner_bytes], "complete-but-not-clean", format!("complete body delivered but terminal event is {:?}", term_obs.map(|o| o.kind()))));
            }
            if let (Some(a), Some(cl)) = (announced, obs.hdr("content-length").and_then(parse_u64_dec)) {
                if a != cl as u128 {
                    out.push(f(&[owner_bytes, "C01"], "cl-vs-body", format!("Content-Length {cl}, well-formed body has {a} bytes")));
                }
            }
        }
        (Match::Prefix { delivered }, Fate::Clean) => {
            out.push(f(&[owner_bytes], "body-truncated", format!("entity honoured its contract but the body stopped after {delivered} bytes with {:?}", term_obs.map(|o| o.kind()))));
        }
        (_, Fate::Hang) => {}
        (Match::Exact, Fate::LateErr) => {
            if !matches!(term_obs, Some(Obs::Err(_))) {
                out.push(f(fault_props, "late-error-swallowed", format!("the entity stream of call {fault_call} failed right after delivering its last byte, yet the body's terminal event is {:?}", term_obs.map(|o| o.kind()))));
            }
        }
        (Match::Exact, Fate::Long) => {
            // Every announced byte was delivered; the surplus must not be. For 200/single-206
            // the statement requires the poll past the end to fail.
            match term_obs {
                Some(Obs::Err(_)) => {}
                Some(Obs::End) if matches!(shape, Shape::Multi(_)) => {}
                other => out.push(f(fault_props, "long-not-error", format!("over-long entity stream: terminal event {:?}, expected an error", other.map(|o| o.kind())))),
            }
        }
        (Match::Exact, _) | (Match::Prefix { .. }, _) => {
            // Short / failing (or long, cut before completion): must surface as an error.
            match term_obs {
                Some(Obs::Err(e)) => {
                    if fa == Fate::EntErr && *e != HErr2::Scripted && matches!(matched, Match::Prefix { .. }) {
                        // the entity's own error may be replaced by another error; fine
                    }
                }
                other => out.push(f(fault_props, format!("fault-{fa:?}-not-error"), format!("entity stream fault {fa:?} in call {fault_call}: terminal event {:?}, expected an error", other.map(|o| o.kind())))),
            }
        }
    }
    // ---- C12: hints and end flag, for contract-honouring entities ------------------------
    if fa == Fate::Clean {
        check_hints(&obs.body, true, out);
    } else if fa == Fate::EntErr {
        // An entity whose stream reports a failure of its own (an I/O error) before it has
        // delivered the range still honours the length contract: the end-of-stream flag must stay
        // truthful (no hint bounds are claimed for a body that does not end cleanly). Not judged
        // for a failure *after* the last byte: there the flag is legitimately up (nothing is owed)
        // while C07 wants the late failure surfaced -- the statements pull in opposite directions
        // and C12 restricts itself to entities that honour their contract.
        check_end_flag(&obs.body, out);
    }
}

/// The end-of-stream half of the C12 monitor: once the flag was true, no bytes and no error.
pub fn check_end_flag(t: &BodyTrace, out: &mut Vec<Finding>) {
    for (i, (s, _)) in t.steps.iter().enumerate() {
        if s.is_end {
            if let Some((k, (_, o))) = t.steps[i..].iter().enumerate().find(|(_, (_, o))| o.data_len() > 0 || matches!(o, Obs::Err(_) | Obs::Panic(_))) {
                out.push(f(&["C12"], "is-end-lie", format!("is_end_stream() was true before poll {i}, yet poll {} returned {}", i + k, o.kind())));
                return;
            }
        }
    }
}

/// C12 monitor. `exact`: the body kind promises an exact hint.
pub fn check_hints(t: &BodyTrace, exact: bool, out: &mut Vec<Finding>) {
    let Some(term) = t.first_terminal() else {
        return;
    };
    let clean = t.steps[term].1 == Obs::End;
    // remaining[i] = bytes delivered by polls i.. (up to the terminal event)
    let mut remaining = vec![0u128; t.steps.len() + 1];
    for i in (0..t.steps.len()).rev() {
        remaining[i] = remaining[i + 1] + t.steps[i].1.data_len() as u128;
    }
    for (i, (s, _)) in t.steps.iter().enumerate() {
        if clean {
            if s.lower as u128 > remaining[i] {
                out.push(f(&["C12"], "hint-lower", format!("before poll {i}: lower bound {} but only {} bytes follow", s.lower, remaining[i])));
                break;
            }
            if let Some(u) = s.upper {
                if (u as u128) < remaining[i] {
                    out.push(f(&["C12"], "hint-upper", format!("before poll {i}: upper bound {u} but {} bytes follow", remaining[i])));
                    break;
                }
            }
            if exact && (s.upper != Some(s.lower)) {
                out.push(f(&["C12"], "hint-inexact", format!("before poll {i}: hint {}..{:?} not exact", s.lower, s.upper)));
                break;
            }
        }
        if s.is_end {
            let later = &t.steps[i..];
            if let Some((k, (_, o))) = later.iter().enumerate().find(|(_, (_, o))| o.data_len() > 0 || matches!(o, Obs::Err(_) | Obs::Panic(_))) {
                out.push(f(&["C12"], "is-end-lie", format!("is_end_stream() was true before poll {i}, yet poll {} returned {}", i + k, o.kind())));
                break;
            }
        }
    }
    if let Some(s) = t.last {
        if clean && (s.lower != 0 || s.upper.map(|u| u != 0).unwrap_or(false)) {
            out.push(f(&["C12"], "hint-after-end", format!("after the clean end the hint is {}..{:?}", s.lower, s.upper)));
        }
    }
}

/// C14, single response: validators and metadata exposed faithfully.
pub fn check_validators(req: &Req, ent: &EntSpec, obs: &ServeObs, out: &mut Vec<Finding>) {
    if obs.panic.is_some() || ![200, 206, 304, 412, 416].contains(&obs.status) {
        return;
    }
    if obs.hdr("accept-ranges") != Some(b"bytes") {
        out.push(f(&["C14"], "accept-ranges", format!("status {}: Accept-Ranges is {:?}", obs.status, obs.hdr("accept-ranges").map(String::from_utf8_lossy))));
    }
    if obs.hdr("etag") != ent.etag.as_deref() || obs.hdr_count("etag") > 1 {
        out.push(f(&["C14"], "etag", format!("status {}: ETag {:?}, entity's is {:?}", obs.status, obs.hdr("etag").map(String::from_utf8_lossy), ent.etag.as_deref().map(String::from_utf8_lossy))));
    }
    match ent.mtime {
        None => {
            if obs.hdr("last-modified").is_some() {
                out.push(f(&["C14"], "lm-without-mtime", "Last-Modified without a modification time"));
            }
        }
        Some(mt) => {
            let d = obs.hdr("date").and_then(super::date::parse_imf);
            let lmh = obs.hdr("last-modified").and_then(super::date::parse_imf);
            match (d, lmh) {
                (Some(d), Some(lmv)) => {
                    if lmv > d {
                        out.push(f(&["C14"], "lm-after-date", format!("Last-Modified {lmv} later than Date {d}")));
                    }
                    let secs = |t: SystemTime| t.duration_since(UNIX_EPOCH).unwrap().as_secs();
                    let mts = if mt < UNIX_EPOCH { u64::MAX } else { secs(mt) };
                    if mts < secs(obs.t0) {
                        // certainly in the past at the time of the call
                        if lmv != mts {
                            out.push(f(&["C14"], "lm-not-truncated-mtime", format!("Last-Modified {lmv}, modification time truncated to the second is {mts}")));
                        }
                    }
                }
                _ => out.push(f(&["C14"], "date-or-lm-missing", format!("status {}: Date {:?} / Last-Modified {:?} missing or unparseable", obs.status, obs.hdr("date").map(String::from_utf8_lossy), obs.hdr("last-modified").map(String::from_utf8_lossy)))),
            }
        }
    }
    // entity headers
    let is_multi = obs.status == 206 && obs.hdr("content-range").is_none();
    let want_present = obs.status == 200 || (obs.status == 206 && req.get("if-range").is_none() && !is_multi);
    // (a 206 that answers a request WITH If-Range is left open by the statement: it names the
    // responses that carry the entity's headers and the ones that carry none, and this is neither)
    let want_absent = matches!(obs.status, 304 | 412 | 416);
    for (k, v) in &ent.headers {
        // optional whitespace around a field value is not part of the value (RFC 7230 s.3.2)
        let trim = |mut x: &[u8]| -> Vec<u8> {
            while let [b' ' | b'\t', r @ ..] = x {
                x = r;
            }
            while let [r @ .., b' ' | b'\t'] = x {
                x = r;
            }
            x.to_vec()
        };
        let present = obs.headers.iter().any(|(hk, hv)| hk == &k.to_ascii_lowercase() && trim(hv) == trim(v));
        if want_present && !present {
            out.push(f(&["C14"], "entity-header-missing", format!("status {}: entity header {k} missing", obs.status)));
        }
        if want_absent && present {
            out.push(f(&["C14"], "entity-header-leak", format!("status {}: entity header {k} present", obs.status)));
        }
    }
}

/// C15: a HEAD response mirrors the GET response.
pub fn check_head_mirror(get: &ServeObs, head: &ServeObs, out: &mut Vec<Finding>) {
    if get.panic.is_some() || head.panic.is_some() {
        if head.panic.is_some() {
            out.push(f(&["C15", "C13"], "head-panic", format!("HEAD: serve panicked: {:?}", head.panic)));
        }
        return;
    }
    if get.status != head.status {
        out.push(f(&["C15"], "head-status", format!("GET {} vs HEAD {}", get.status, head.status)));
        return;
    }
    let strip = |o: &ServeObs| {
        let mut h: Vec<(String, Vec<u8>)> = o.headers.iter().filter(|(k, _)| k != "date" && k != "last-modified").cloned().collect();
        h.sort();
        h
    };
    let (hg, hh) = (strip(get), strip(head));
    if hg != hh {
        let show = |h: &[(String, Vec<u8>)]| h.iter().map(|(k, v)| format!("{k}: {}", String::from_utf8_lossy(v))).collect::<Vec<_>>();
        let only_g: Vec<_> = hg.iter().filter(|x| !hh.contains(x)).cloned().collect();
        let only_h: Vec<_> = hh.iter().filter(|x| !hg.contains(x)).cloned().collect();
        out.push(f(&["C15"], "head-headers", format!("headers differ: only in GET {:?}, only in HEAD {:?}", show(&only_g), show(&only_h))));
    }
    // Date / Last-Modified are clock-derived and excluded by the statement: only their presence
    // must agree (comparing values would make the verdict depend on scheduling delays).
    for name in ["date", "last-modified"] {
        if get.hdr(name).is_some() != head.hdr(name).is_some() {
            out.push(f(&["C15"], "head-clock-header", format!("{name} present in only one of GET/HEAD")));
        }
    }
    if matches!(head.status, 200..=399 | 416) {
        let first = head.body.steps.first();
        let ok = matches!(first, Some((s, Obs::End)) if s.lower == 0 && s.upper == Some(0) && s.is_end);
        if !ok || head.body.delivered() != 0 {
            out.push(f(&["C15"], "head-body", format!("HEAD body not empty/ended: first step {:?}", first)));
        }
    }
    if !head.get_range.is_empty() {
        out.push(f(&["C15"], "head-read", format!("HEAD asked the entity for {:?}", head.get_range)));
    }
}
