//! Independent gzip (RFC 1952) member parser with its own CRC-32; raw DEFLATE data is
//! inflated through `miniz_oxide::inflate::stream` (a different code path from the
//! `miniz_oxide::deflate` + `flate2::GzEncoder` pair that produced the bytes), fed only the
//! bytes delivered so far.

use miniz_oxide::inflate::stream::{inflate, InflateState};
use miniz_oxide::{DataFormat, MZFlush, MZStatus};

fn crc_table() -> &'static [u32; 256] {
    static T: std::sync::OnceLock<[u32; 256]> = std::sync::OnceLock::new();
    T.get_or_init(|| {
        let mut t = [0u32; 256];
        for (i, e) in t.iter_mut().enumerate() {
            let mut c = i as u32;
            for _ in 0..8 {
                c = if c & 1 != 0 { 0xEDB8_8320 ^ (c >> 1) } else { c >> 1 };
            }
            *e = c;
        }
        t
    })
}

pub fn crc32(data: &[u8]) -> u32 {
    let t = crc_table();
    let mut c = 0xFFFF_FFFFu32;
    for &b in data {
        c = t[((c ^ b as u32) & 0xff) as usize] ^ (c >> 8);
    }
    c ^ 0xFFFF_FFFF
}

#[derive(Debug, PartialEq, Eq)]
pub enum HeaderParse {
    /// Header complete; deflate data starts at this offset.
    Done(usize),
    NeedMore,
    Bad(String),
}

pub fn parse_header(b: &[u8]) -> HeaderParse {
    if b.len() < 10 {
        // check what is there
        if !b.is_empty() && b[0] != 0x1f {
            return HeaderParse::Bad("ID1 != 0x1f".into());
        }
        if b.len() >= 2 && b[1] != 0x8b {
            return HeaderParse::Bad("ID2 != 0x8b".into());
        }
        if b.len() >= 3 && b[2] != 8 {
            return HeaderParse::Bad(format!("CM = {}", b[2]));
        }
        return HeaderParse::NeedMore;
    }
    if b[0] != 0x1f || b[1] != 0x8b {
        return HeaderParse::Bad("bad magic".into());
    }
    if b[2] != 8 {
        return HeaderParse::Bad(format!("CM = {}", b[2]));
    }
    let flg = b[3];
    if flg & 0xe0 != 0 {
        return HeaderParse::Bad(format!("reserved FLG bits set: {flg:#x}"));
    }
    let mut p = 10;
    if flg & 4 != 0 {
        if b.len() < p + 2 {
            return HeaderParse::NeedMore;
        }
        let xlen = b[p] as usize | (b[p + 1] as usize) << 8;
        p += 2 + xlen;
        if b.len() < p {
            return HeaderParse::NeedMore;
        }
    }
    for bit in [8u8, 16] {
        if flg & bit != 0 {
            match b[p.min(b.len())..].iter().position(|&x| x == 0) {
                Some(z) => p += z + 1,
                None => return HeaderParse::NeedMore,
            }
        }
    }
    if flg & 2 != 0 {
        p += 2;
        if b.len() < p {
            return HeaderParse::NeedMore;
        }
    }
    HeaderParse::Done(p)
}

#[derive(Debug)]
pub struct Decoded {
    /// Plain bytes recoverable from the input so far.
    pub plain: Vec<u8>,
    /// The deflate stream reached its final block.
    pub stream_end: bool,
    /// Input bytes after the end of the deflate stream (trailer + anything else).
    pub after_deflate: Vec<u8>,
}

/// Streaming decode of a (possibly incomplete) gzip member.
pub fn decode_prefix(input: &[u8]) -> Result<Decoded, String> {
    let start = match parse_header(input) {
        HeaderParse::Bad(m) => return Err(format!("gzip header: {m}")),
        HeaderParse::NeedMore => {
            return Ok(Decoded {
                plain: vec![],
                stream_end: false,
                after_deflate: vec![],
            })
        }
        HeaderParse::Done(p) => p,
    };
    let mut st = InflateState::new_boxed(DataFormat::Raw);
    let mut plain = Vec::new();
    let mut pos = start;
    let mut out = vec![0u8; 64 * 1024];
    let mut stream_end = false;
    loop {
        let r = inflate(&mut st, &input[pos..], &mut out, MZFlush::None);
        pos += r.bytes_consumed;
        plain.extend_from_slice(&out[..r.bytes_written]);
        match r.status {
            Ok(MZStatus::StreamEnd) => {
                stream_end = true;
                break;
            }
            Ok(MZStatus::Ok) => {
                if r.bytes_consumed == 0 && r.bytes_written == 0 {
                    break;
                }
            }
            Ok(MZStatus::NeedDict) => return Err("deflate: needs dictionary".into()),
            Err(miniz_oxide::MZError::Buf) => break, // needs more input: fine for a prefix
            Err(e) => return Err(format!("deflate: {e:?} at input byte {pos}")),
        }
    }
    Ok(Decoded {
        plain,
        stream_end,
        after_deflate: if stream_end { input[pos..].to_vec() } else { vec![] },
    })
}

/// Incremental version of `decode_prefix`: frames are fed as they are delivered.
pub struct GzStream {
    head: Vec<u8>,
    header_done: bool,
    st: Box<InflateState>,
    pub plain: Vec<u8>,
    pub stream_end: bool,
    pub after_deflate: Vec<u8>,
    pub error: Option<String>,
    out: Vec<u8>,
}

impl Default for GzStream {
    fn default() -> Self {
        GzStream::new()
    }
}

impl GzStream {
    pub fn new() -> GzStream {
        GzStream {
            head: Vec::new(),
            header_done: false,
            st: InflateState::new_boxed(DataFormat::Raw),
            plain: Vec::new(),
            stream_end: false,
            after_deflate: Vec::new(),
            error: None,
            out: vec![0u8; 64 * 1024],
        }
    }

    pub fn feed(&mut self, input: &[u8]) {
        if self.error.is_some() {
            return;
        }
        if self.stream_end {
            self.after_deflate.extend_from_slice(input);
            return;
        }
        if !self.header_done {
            self.head.extend_from_slice(input);
            match parse_header(&self.head) {
                HeaderParse::Bad(m) => self.error = Some(format!("gzip header: {m}")),
                HeaderParse::NeedMore => {}
                HeaderParse::Done(p) => {
                    self.header_done = true;
                    let held = self.head.split_off(p);
                    self.inflate_more(&held);
                }
            }
            return;
        }
        self.inflate_more(input);
    }

    fn inflate_more(&mut self, input: &[u8]) {
        let mut pos = 0;
        loop {
            let r = inflate(&mut self.st, &input[pos..], &mut self.out, MZFlush::None);
            pos += r.bytes_consumed;
            self.plain.extend_from_slice(&self.out[..r.bytes_written]);
            match r.status {
                Ok(MZStatus::StreamEnd) => {
                    self.stream_end = true;
                    self.after_deflate.extend_from_slice(&input[pos..]);
                    return;
                }
                Ok(MZStatus::Ok) => {
                    if r.bytes_consumed == 0 && r.bytes_written == 0 {
                        return;
                    }
                }
                Ok(MZStatus::NeedDict) => {
                    self.error = Some("deflate: needs dictionary".into());
                    return;
                }
                Err(miniz_oxide::MZError::Buf) => return,
                Err(e) => {
                    self.error = Some(format!("deflate: {e:?}"));
                    return;
                }
            }
        }
    }

    /// After the body ended: exactly one member of `want`?
    pub fn verify_complete(&self, want: &[u8]) -> Result<(), String> {
        if let Some(e) = &self.error {
            return Err(e.clone());
        }
        if !self.stream_end {
            return Err(format!("deflate stream has no final block ({} of {} plain bytes decodable)", self.plain.len(), want.len()));
        }
        if self.plain != want {
            let k = self.plain.iter().zip(want).position(|(a, b)| a != b).unwrap_or(self.plain.len().min(want.len()));
            return Err(format!("decompressed {} bytes, written {} bytes, first difference at {k}", self.plain.len(), want.len()));
        }
        let t = &self.after_deflate;
        if t.len() < 8 {
            return Err(format!("trailer has {} bytes, need 8", t.len()));
        }
        if t.len() > 8 {
            return Err(format!("{} bytes after the gzip trailer", t.len() - 8));
        }
        let crc = u32::from_le_bytes([t[0], t[1], t[2], t[3]]);
        let isize_ = u32::from_le_bytes([t[4], t[5], t[6], t[7]]);
        if crc != crc32(want) {
            return Err(format!("CRC-32 {crc:#010x}, expected {:#010x}", crc32(want)));
        }
        if isize_ != want.len() as u32 {
            return Err(format!("ISIZE {isize_}, expected {}", want.len() as u32));
        }
        Ok(())
    }
}

/// Verifies that `input` is exactly one well-formed gzip member whose content is `want`.
pub fn verify_member(input: &[u8], want: &[u8]) -> Result<(), String> {
    let d = decode_prefix(input)?;
    if !d.stream_end {
        return Err(format!(
            "deflate stream has no final block ({} of {} plain bytes decodable from {} body bytes)",
            d.plain.len(),
            want.len(),
            input.len()
        ));
    }
    if d.plain != want {
        let k = d
            .plain
            .iter()
            .zip(want)
            .position(|(a, b)| a != b)
            .unwrap_or(d.plain.len().min(want.len()));
        return Err(format!(
            "decompressed {} bytes, written {} bytes, first difference at {k}",
            d.plain.len(),
            want.len()
        ));
    }
    let t = &d.after_deflate;
    if t.len() < 8 {
        return Err(format!("trailer has {} bytes, need 8", t.len()));
    }
    if t.len() > 8 {
        return Err(format!("{} bytes after the gzip trailer", t.len() - 8));
    }
    let crc = u32::from_le_bytes([t[0], t[1], t[2], t[3]]);
    let isize_ = u32::from_le_bytes([t[4], t[5], t[6], t[7]]);
    if crc != crc32(want) {
        return Err(format!("CRC-32 {crc:#010x}, expected {:#010x}", crc32(want)));
    }
    if isize_ != want.len() as u32 {
        return Err(format!("ISIZE {isize_}, expected {}", want.len() as u32));
    }
    Ok(())
}

pub fn looks_like_gzip(b: &[u8]) -> bool {
    b.len() >= 3 && b[0] == 0x1f && b[1] == 0x8b && b[2] == 8
}

#[cfg(test)]
mod tests {
    use super::*;
    #[test]
    fn crc() {
        assert_eq!(crc32(b"123456789"), 0xCBF4_3926);
        assert_eq!(crc32(b""), 0);
    }
}
