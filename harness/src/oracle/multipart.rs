//! Independent verifier for multipart/byteranges bodies (RFC 7233 appendix A / RFC 2046
//! s.5.1.1), written from the text of C06. It *parses* the delivered body; it does not render
//! a golden one, so header order and spelling freedom is not constrained beyond the statement.

use super::bodycmp::Cursor;
use crate::drive::Obs;

/// Extracts the boundary parameter of a `multipart/byteranges` content type.
pub fn boundary_of(ct: &[u8]) -> Result<Vec<u8>, String> {
    let s = std::str::from_utf8(ct).map_err(|_| "Content-Type not ASCII".to_string())?;
    let mut parts = s.split(';');
    let mt = parts.next().unwrap_or("").trim();
    if !mt.eq_ignore_ascii_case("multipart/byteranges") {
        return Err(format!("Content-Type is {mt:?}, not multipart/byteranges"));
    }
    for p in parts {
        let p = p.trim();
        if let Some((k, v)) = p.split_once('=') {
            if k.trim().eq_ignore_ascii_case("boundary") {
                let v = v.trim();
                let v = v
                    .strip_prefix('"')
                    .and_then(|x| x.strip_suffix('"'))
                    .unwrap_or(v);
                let ok = !v.is_empty()
                    && v.len() <= 70
                    && !v.ends_with(' ')
                    && v.bytes().all(|b| {
                        b.is_ascii_alphanumeric() || b"'()+_,-./:=? ".contains(&b)
                    });
                if !ok {
                    return Err(format!("invalid boundary {v:?}"));
                }
                return Ok(v.as_bytes().to_vec());
            }
        }
    }
    Err("multipart/byteranges without boundary parameter".into())
}

fn parse_content_range(v: &[u8]) -> Option<(u128, u128, u128)> {
    let s = std::str::from_utf8(v).ok()?;
    let s = s.strip_prefix("bytes ")?;
    let (r, l) = s.split_once('/')?;
    let (a, b) = r.split_once('-')?;
    let num = |x: &str| -> Option<u128> {
        if x.is_empty() || !x.bytes().all(|c| c.is_ascii_digit()) {
            return None;
        }
        x.parse().ok()
    };
    Some((num(a)?, num(b)?, num(l)?))
}

pub fn parse_single_content_range(v: &[u8]) -> Option<(u128, u128, u128)> {
    parse_content_range(v)
}

#[derive(Clone, Copy, Debug, PartialEq, Eq)]
pub struct Verified {
    /// Number of body bytes looked at.
    pub total: u128,
    /// The whole body including the closing delimiter was seen. `false`: the frames ran out
    /// somewhere, and everything before that point was correct.
    pub complete: bool,
    /// Number of parts whose bytes were completely delivered.
    pub parts_done: usize,
    /// Frames ran out inside the entity bytes of part `parts_done`, after this many of them
    /// (None: ran out elsewhere).
    pub partial_bytes: Option<u64>,
}

/// Verifies a multipart body (or, when the frames run out early, the prefix that was
/// delivered). `ent_headers`: `Some(list)` if every part must carry exactly these entity
/// headers (as a multiset, names case-insensitive), `None` if it must carry none (request had
/// If-Range).
pub fn verify<'a>(
    boundary: &[u8],
    frames: impl Iterator<Item = &'a Obs>,
    ranges: &[(u64, u64)],
    len: u64,
    ent_headers: Option<&[(String, Vec<u8>)]>,
) -> Result<Verified, String> {
    let mut c = Cursor::new(frames);
    let total = c.remaining();
    let trunc = |parts_done: usize, partial_bytes: Option<u64>| Verified {
        total,
        complete: false,
        parts_done,
        partial_bytes,
    };
    let mut delim = b"--".to_vec();
    delim.extend_from_slice(boundary);
    for (i, &(a, b)) in ranges.iter().enumerate() {
        // delimiter := CRLF "--" boundary; the CRLF is optional before the first one (empty
        // preamble).
        let Some(mut line) = c.read_line(4096).map_err(|m| format!("part {i}: {m}"))? else {
            return Ok(trunc(i, None));
        };
        if line.is_empty() {
            match c.read_line(4096).map_err(|m| format!("part {i}: {m}"))? {
                Some(l) => line = l,
                None => return Ok(trunc(i, None)),
            }
        } else if i > 0 {
            return Err(format!(
                "part {i}: delimiter not preceded by CRLF (got line {:?})",
                String::from_utf8_lossy(&line)
            ));
        }
        if line != delim {
            return Err(format!(
                "part {i}: expected delimiter line {:?}, got {:?}",
                String::from_utf8_lossy(&delim),
                String::from_utf8_lossy(&line)
            ));
        }
        let mut content_range = None;
        let mut others: Vec<(String, Vec<u8>)> = Vec::new();
        loop {
            let Some(h) = c.read_line(16_384).map_err(|m| format!("part {i}: {m}"))? else {
                return Ok(trunc(i, None));
            };
            if h.is_empty() {
                break;
            }
            let colon = h.iter().position(|&x| x == b':').ok_or_else(|| {
                format!(
                    "part {i}: header line without colon: {:?}",
                    String::from_utf8_lossy(&h)
                )
            })?;
            let name = String::from_utf8_lossy(&h[..colon]).to_ascii_lowercase();
            let mut val = &h[colon + 1..];
            while let [b' ' | b'\t', r @ ..] = val {
                val = r;
            }
            while let [r @ .., b' ' | b'\t'] = val {
                val = r;
            }
            if name == "content-range" {
                if content_range.is_some() {
                    return Err(format!("part {i}: two Content-Range lines"));
                }
                content_range = Some(val.to_vec());
            } else {
                others.push((name, val.to_vec()));
            }
        }
        let cr = content_range.ok_or_else(|| format!("part {i}: no Content-Range line"))?;
        let got = parse_content_range(&cr).ok_or_else(|| {
            format!(
                "part {i}: unparseable Content-Range {:?}",
                String::from_utf8_lossy(&cr)
            )
        })?;
        if got != (a as u128, b as u128, len as u128) {
            return Err(format!(
                "part {i}: Content-Range {:?}, expected bytes {a}-{b}/{len}",
                String::from_utf8_lossy(&cr)
            ));
        }
        let mut want: Vec<(String, Vec<u8>)> = ent_headers
            .unwrap_or(&[])
            .iter()
            .map(|(k, v)| {
                // optional whitespace around a field value is not part of the value
                let mut x = &v[..];
                while let [b' ' | b'\t', r @ ..] = x {
                    x = r;
                }
                while let [r @ .., b' ' | b'\t'] = x {
                    x = r;
                }
                (k.to_ascii_lowercase(), x.to_vec())
            })
            .collect();
        want.sort();
        others.sort();
        if want != others {
            let show = |l: &[(String, Vec<u8>)]| {
                l.iter()
                    .map(|(k, v)| format!("{k}: {}", String::from_utf8_lossy(v)))
                    .collect::<Vec<_>>()
            };
            return Err(format!(
                "part {i}: part headers {:?}, expected entity headers {:?}",
                show(&others),
                show(&want)
            ));
        }
        let n = b - a + 1;
        match c.expect_entity(a, n) {
            Err(m) => return Err(format!("part {i}: {m}")),
            Ok(k) if k < n => return Ok(trunc(i, Some(k))),
            Ok(_) => {}
        }
    }
    // close-delimiter := CRLF "--" boundary "--", then an optional CRLF.
    let mut close = b"\r\n".to_vec();
    close.extend_from_slice(&delim);
    close.extend_from_slice(b"--");
    if !c
        .expect_lit_prefix(&close)
        .map_err(|m| format!("closing delimiter: {m}"))?
    {
        return Ok(trunc(ranges.len(), None));
    }
    if !c.at_end() {
        c.expect_lit(b"\r\n")
            .map_err(|m| format!("after closing delimiter: {m}"))?;
    }
    if !c.at_end() {
        return Err(format!("{} bytes after the closing delimiter", c.remaining()));
    }
    Ok(Verified {
        total,
        complete: true,
        parts_done: ranges.len(),
        partial_bytes: None,
    })
}
