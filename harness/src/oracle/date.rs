//! Independent HTTP-date formatter / parser (RFC 7231 s.7.1.1.1). Shares nothing with
//! `httpdate`. Seconds are Unix seconds (>= 0 only; the harness never uses pre-epoch times).

const DAYS: [&str; 7] = ["Thu", "Fri", "Sat", "Sun", "Mon", "Tue", "Wed"]; // 1970-01-01 = Thu
const LONG_DAYS: [&str; 7] = [
    "Thursday",
    "Friday",
    "Saturday",
    "Sunday",
    "Monday",
    "Tuesday",
    "Wednesday",
];
const MONTHS: [&str; 12] = [
    "Jan", "Feb", "Mar", "Apr", "May", "Jun", "Jul", "Aug", "Sep", "Oct", "Nov", "Dec",
];

// Howard Hinnant's civil calendar algorithms.
fn civil_from_days(z: i64) -> (i64, u32, u32) {
    let z = z + 719_468;
    let era = z.div_euclid(146_097);
    let doe = z.rem_euclid(146_097);
    let yoe = (doe - doe / 1460 + doe / 36_524 - doe / 146_096) / 365;
    let y = yoe + era * 400;
    let doy = doe - (365 * yoe + yoe / 4 - yoe / 100);
    let mp = (5 * doy + 2) / 153;
    let d = (doy - (153 * mp + 2) / 5 + 1) as u32;
    let m = if mp < 10 { mp + 3 } else { mp - 9 } as u32;
    (if m <= 2 { y + 1 } else { y }, m, d)
}

fn days_from_civil(y: i64, m: u32, d: u32) -> i64 {
    let y = if m <= 2 { y - 1 } else { y };
    let era = y.div_euclid(400);
    let yoe = y.rem_euclid(400);
    let mp = (m as i64 + 9) % 12;
    let doy = (153 * mp + 2) / 5 + d as i64 - 1;
    let doe = yoe * 365 + yoe / 4 - yoe / 100 + doy;
    era * 146_097 + doe - 719_468
}

pub fn fmt_imf(secs: u64) -> String {
    let days = (secs / 86_400) as i64;
    let rem = secs % 86_400;
    let (y, m, d) = civil_from_days(days);
    format!(
        "{}, {:02} {} {:04} {:02}:{:02}:{:02} GMT",
        DAYS[(days % 7) as usize],
        d,
        MONTHS[(m - 1) as usize],
        y,
        rem / 3600,
        rem % 3600 / 60,
        rem % 60
    )
}

/// Obsolete RFC 850 format (two-digit year).
pub fn fmt_rfc850(secs: u64) -> String {
    let days = (secs / 86_400) as i64;
    let rem = secs % 86_400;
    let (y, m, d) = civil_from_days(days);
    format!(
        "{}, {:02}-{}-{:02} {:02}:{:02}:{:02} GMT",
        LONG_DAYS[(days % 7) as usize],
        d,
        MONTHS[(m - 1) as usize],
        y % 100,
        rem / 3600,
        rem % 3600 / 60,
        rem % 60
    )
}

/// Obsolete asctime() format.
pub fn fmt_asctime(secs: u64) -> String {
    let days = (secs / 86_400) as i64;
    let rem = secs % 86_400;
    let (y, m, d) = civil_from_days(days);
    format!(
        "{} {} {:2} {:02}:{:02}:{:02} {:04}",
        DAYS[(days % 7) as usize],
        MONTHS[(m - 1) as usize],
        d,
        rem / 3600,
        rem % 3600 / 60,
        rem % 60,
        y
    )
}

fn num(s: &[u8]) -> Option<u64> {
    if s.is_empty() || !s.iter().all(|b| b.is_ascii_digit()) {
        return None;
    }
    std::str::from_utf8(s).ok()?.parse().ok()
}

fn month(s: &[u8]) -> Option<u32> {
    MONTHS
        .iter()
        .position(|m| m.as_bytes() == s)
        .map(|p| p as u32 + 1)
}

fn hms(s: &[u8]) -> Option<u64> {
    if s.len() != 8 || s[2] != b':' || s[5] != b':' {
        return None;
    }
    let (h, m, sec) = (num(&s[0..2])?, num(&s[3..5])?, num(&s[6..8])?);
    if h > 23 || m > 59 || sec > 59 {
        return None;
    }
    Some(h * 3600 + m * 60 + sec)
}

fn assemble(y: i64, m: u32, d: u32, t: u64) -> Option<u64> {
    if !(1..=31).contains(&d) || y < 1970 {
        return None;
    }
    let days = days_from_civil(y, m, d);
    // Reject day numbers that do not exist in the month (e.g. 31 Feb).
    if civil_from_days(days) != (y, m, d) {
        return None;
    }
    Some(days as u64 * 86_400 + t)
}

/// Strict parser for IMF-fixdate only. `None` = not in that format (the caller treats the
/// value as "not a well-formed validator" and asserts nothing about it).
pub fn parse_imf(v: &[u8]) -> Option<u64> {
    // "Sun, 06 Nov 1994 08:49:37 GMT"
    if v.len() != 29 || &v[3..5] != b", " || v[7] != b' ' || v[11] != b' ' || v[16] != b' ' {
        return None;
    }
    if &v[25..] != b" GMT" {
        return None;
    }
    let wd = DAYS.iter().position(|d| d.as_bytes() == &v[0..3])?;
    let d = num(&v[5..7])? as u32;
    let m = month(&v[8..11])?;
    let y = num(&v[12..16])? as i64;
    let t = hms(&v[17..25])?;
    let secs = assemble(y, m, d, t)?;
    if (secs / 86_400 % 7) as usize != wd {
        return None; // wrong day name: treat as malformed
    }
    Some(secs)
}

/// RFC 850 form. Two-digit years are only accepted in 70..=99 (-> 19yy), where every
/// interpretation rule agrees; other years give `None` (nothing asserted).
pub fn parse_rfc850(v: &[u8]) -> Option<u64> {
    // "Sunday, 06-Nov-94 08:49:37 GMT"
    let comma = v.iter().position(|&b| b == b',')?;
    let wd = LONG_DAYS.iter().position(|d| d.as_bytes() == &v[..comma])?;
    let r = &v[comma..];
    if r.len() != 24 || &r[0..2] != b", " || r[4] != b'-' || r[8] != b'-' || r[11] != b' ' {
        return None;
    }
    if &r[20..] != b" GMT" {
        return None;
    }
    let d = num(&r[2..4])? as u32;
    let m = month(&r[5..8])?;
    let yy = num(&r[9..11])? as i64;
    if !(70..=99).contains(&yy) {
        return None;
    }
    let t = hms(&r[12..20])?;
    let secs = assemble(1900 + yy, m, d, t)?;
    if (secs / 86_400 % 7) as usize != wd {
        return None;
    }
    Some(secs)
}

/// asctime() form.
pub fn parse_asctime(v: &[u8]) -> Option<u64> {
    // "Sun Nov  6 08:49:37 1994"
    if v.len() != 24 || v[3] != b' ' || v[7] != b' ' || v[10] != b' ' || v[19] != b' ' {
        return None;
    }
    let wd = DAYS.iter().position(|d| d.as_bytes() == &v[0..3])?;
    let m = month(&v[4..7])?;
    let dd = if v[8] == b' ' { &v[9..10] } else { &v[8..10] };
    let d = num(dd)? as u32;
    let t = hms(&v[11..19])?;
    let y = num(&v[20..24])? as i64;
    let secs = assemble(y, m, d, t)?;
    if (secs / 86_400 % 7) as usize != wd {
        return None;
    }
    Some(secs)
}

pub fn parse_any(v: &[u8]) -> Option<u64> {
    parse_imf(v).or_else(|| parse_rfc850(v)).or_else(|| parse_asctime(v))
}

#[cfg(test)]
mod tests {
    use super::*;
    #[test]
    fn roundtrip() {
        assert_eq!(fmt_imf(784_111_777), "Sun, 06 Nov 1994 08:49:37 GMT");
        assert_eq!(fmt_rfc850(784_111_777), "Sunday, 06-Nov-94 08:49:37 GMT");
        assert_eq!(fmt_asctime(784_111_777), "Sun Nov  6 08:49:37 1994");
        for s in [0u64, 1, 86_399, 86_400, 951_782_400, 1_709_164_800, 4_102_444_800] {
            assert_eq!(parse_imf(fmt_imf(s).as_bytes()), Some(s));
        }
        assert_eq!(parse_imf(b"Sun, 31 Feb 1994 08:49:37 GMT"), None);
        assert_eq!(parse_rfc850(b"Sunday, 06-Nov-94 08:49:37 GMT"), Some(784_111_777));
        assert_eq!(parse_asctime(b"Sun Nov  6 08:49:37 1994"), Some(784_111_777));
    }
}
