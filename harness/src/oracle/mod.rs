pub mod accept;
pub mod bodycmp;
pub mod cond;
pub mod date;
pub mod gzip;
pub mod multipart;
pub mod range;
pub mod serve;
