//! Descriptor-aware comparison of a delivered frame sequence with an expected byte stream
//! made of literal bytes and entity byte ranges (no bytes of huge ranges are materialised).

use crate::drive::Obs;
use crate::vbuf::{content_byte, content_vec};

#[derive(Clone, Debug, PartialEq, Eq)]
pub enum Seg {
    Lit(Vec<u8>),
    /// entity bytes off..off+len
    Ent(u64, u64),
}

pub fn seg_len(s: &[Seg]) -> u128 {
    s.iter()
        .map(|x| match x {
            Seg::Lit(v) => v.len() as u128,
            Seg::Ent(_, l) => *l as u128,
        })
        .sum()
}

/// Cursor over the data frames of a trace.
pub struct Cursor<'a> {
    frames: Vec<&'a Obs>,
    i: usize,
    off: u64,
}

impl<'a> Cursor<'a> {
    pub fn new(frames: impl Iterator<Item = &'a Obs>) -> Self {
        let mut c = Cursor {
            frames: frames.filter(|o| o.is_data()).collect(),
            i: 0,
            off: 0,
        };
        c.skip_empty();
        c
    }

    fn skip_empty(&mut self) {
        while self.i < self.frames.len() && self.off >= self.frames[self.i].data_len() {
            self.i += 1;
            self.off = 0;
        }
    }

    pub fn at_end(&self) -> bool {
        self.i >= self.frames.len()
    }

    pub fn remaining(&self) -> u128 {
        let mut r: u128 = 0;
        for (k, f) in self.frames.iter().enumerate().skip(self.i) {
            r += f.data_len() as u128;
            if k == self.i {
                r -= self.off as u128;
            }
        }
        r
    }

    pub fn next_byte(&mut self) -> Option<u8> {
        if self.at_end() {
            return None;
        }
        let b = match self.frames[self.i] {
            Obs::Real(v) => v[self.off as usize],
            Obs::Virt(o, _) => content_byte(o.wrapping_add(self.off)),
            _ => unreachable!(),
        };
        self.off += 1;
        self.skip_empty();
        Some(b)
    }

    /// Reads up to and including the next CRLF (at most `max` bytes); returns the line
    /// without the CRLF. `Ok(None)`: the frames ran out first.
    pub fn read_line(&mut self, max: usize) -> Result<Option<Vec<u8>>, String> {
        let mut v = Vec::new();
        loop {
            let Some(b) = self.next_byte() else {
                return Ok(None);
            };
            v.push(b);
            if v.ends_with(b"\r\n") {
                v.truncate(v.len() - 2);
                return Ok(Some(v));
            }
            if v.len() > max {
                return Err(format!("no CRLF within {max} bytes"));
            }
        }
    }

    /// `Ok(true)` matched fully, `Ok(false)` frames ran out while still matching.
    pub fn expect_lit_prefix(&mut self, lit: &[u8]) -> Result<bool, String> {
        for (k, &e) in lit.iter().enumerate() {
            match self.next_byte() {
                Some(b) if b == e => {}
                Some(b) => {
                    return Err(format!(
                        "literal mismatch at byte {k} of {:?}: got 0x{b:02x}",
                        String::from_utf8_lossy(lit)
                    ))
                }
                None => return Ok(false),
            }
        }
        Ok(true)
    }

    pub fn expect_lit(&mut self, lit: &[u8]) -> Result<(), String> {
        for (k, &e) in lit.iter().enumerate() {
            match self.next_byte() {
                Some(b) if b == e => {}
                Some(b) => {
                    return Err(format!(
                        "literal mismatch at byte {k} of {:?}: got 0x{b:02x}",
                        String::from_utf8_lossy(lit)
                    ))
                }
                None => return Err(format!("body ended inside literal {:?}", String::from_utf8_lossy(lit))),
            }
        }
        Ok(())
    }

    /// Consumes up to `len` entity bytes starting at entity offset `a`. Returns the number
    /// of bytes that matched before the frames ran out (== len on full success), or an error
    /// on the first wrong byte.
    pub fn expect_entity(&mut self, mut a: u64, len: u64) -> Result<u64, String> {
        let mut done: u64 = 0;
        while done < len {
            if self.at_end() {
                return Ok(done);
            }
            let f = self.frames[self.i];
            let avail = f.data_len() - self.off;
            let take = avail.min(len - done);
            match f {
                Obs::Virt(o, _) => {
                    let at = o.wrapping_add(self.off);
                    if at != a {
                        return Err(format!(
                            "expected entity byte {a} but frame carries entity byte {at}"
                        ));
                    }
                }
                Obs::Real(v) => {
                    let got = &v[self.off as usize..(self.off + take) as usize];
                    let want = content_vec(a, take as usize);
                    if got != &want[..] {
                        let k = got.iter().zip(&want).position(|(x, y)| x != y).unwrap();
                        return Err(format!(
                            "literal bytes differ from entity content at entity byte {}",
                            a + k as u64
                        ));
                    }
                }
                _ => unreachable!(),
            }
            self.off += take;
            a = a.wrapping_add(take);
            done += take;
            self.skip_empty();
        }
        Ok(done)
    }
}

/// Result of matching a delivered stream against the expected one.
#[derive(Debug, PartialEq, Eq)]
pub enum Match {
    /// Every expected byte was delivered and nothing else.
    Exact,
    /// The delivered bytes are a proper prefix of the expected stream.
    Prefix { delivered: u128 },
    Mismatch(String),
    /// More bytes than expected.
    Extra { extra: u128 },
}

pub fn match_stream<'a>(expected: &[Seg], frames: impl Iterator<Item = &'a Obs>) -> Match {
    let mut c = Cursor::new(frames);
    let mut delivered: u128 = 0;
    for s in expected {
        match s {
            Seg::Lit(v) => {
                for (k, &e) in v.iter().enumerate() {
                    match c.next_byte() {
                        None => {
                            return Match::Prefix {
                                delivered: delivered + k as u128,
                            }
                        }
                        Some(b) if b == e => {}
                        Some(b) => {
                            return Match::Mismatch(format!(
                                "at body byte {}: expected literal 0x{e:02x} got 0x{b:02x}",
                                delivered + k as u128
                            ))
                        }
                    }
                }
                delivered += v.len() as u128;
            }
            Seg::Ent(a, l) => match c.expect_entity(*a, *l) {
                Err(m) => return Match::Mismatch(format!("after body byte {delivered}: {m}")),
                Ok(n) if n < *l => {
                    return Match::Prefix {
                        delivered: delivered + n as u128,
                    }
                }
                Ok(n) => delivered += n as u128,
            },
        }
    }
    if c.at_end() {
        Match::Exact
    } else {
        Match::Extra {
            extra: c.remaining(),
        }
    }
}
