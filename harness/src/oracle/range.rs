//! Reference reading of a `Range` header, written from RFC 7233 s.2.1 / the text of C03,
//! over `u128` so that no number a client can send wraps. Shares no code with `src/range.rs`.

#[derive(Clone, Copy, Debug, PartialEq, Eq, Hash)]
pub enum Spec {
    /// `first-last`
    FromTo(u128, u128),
    /// `first-`
    From(u128),
    /// `-n`
    Suffix(u128),
}

#[derive(Clone, Debug, PartialEq, Eq)]
pub enum RangeClass {
    /// No Range header (or the If-Range gate removed it).
    Absent,
    /// Another unit or outside the grammar: the header must be ignored (complete 200).
    MustIgnore,
    /// Grammatical `bytes=` range set.
    Specs {
        specs: Vec<Spec>,
        /// The value uses a recipient-optional leniency (empty list elements, OWS other than
        /// right after a comma, a unit spelled in another case): C03 asserts nothing.
        grey: bool,
    },
}

const SAT: u128 = 1 << 100;

fn digits(s: &[u8]) -> Option<u128> {
    if s.is_empty() || !s.iter().all(|b| b.is_ascii_digit()) {
        return None;
    }
    let mut v: u128 = 0;
    for b in s {
        v = (v * 10 + (b - b'0') as u128).min(SAT);
    }
    Some(v)
}

fn is_ows(b: u8) -> bool {
    b == b' ' || b == b'\t'
}

pub fn classify(v: Option<&[u8]>) -> RangeClass {
    let Some(v) = v else {
        return RangeClass::Absent;
    };
    let mut grey = false;
    let Some(eq) = v.iter().position(|&b| b == b'=') else {
        return RangeClass::MustIgnore;
    };
    let unit = &v[..eq];
    if unit != b"bytes" {
        if unit.eq_ignore_ascii_case(b"bytes") {
            grey = true; // ABNF literals are case-insensitive; the statement does not say.
        } else {
            return RangeClass::MustIgnore;
        }
    }
    let set = &v[eq + 1..];
    let mut specs = Vec::new();
    for (i, el) in set.split(|&b| b == b',').enumerate() {
        let mut el = el;
        let lead = el.iter().take_while(|&&b| is_ows(b)).count();
        if lead > 0 && i == 0 {
            grey = true;
        }
        el = &el[lead..];
        let trail = el.iter().rev().take_while(|&&b| is_ows(b)).count();
        if trail > 0 {
            grey = true;
        }
        el = &el[..el.len() - trail];
        if el.is_empty() {
            grey = true; // empty list element (RFC 7230 s.7: recipients MUST accept, senders MUST NOT send)
            continue;
        }
        let Some(h) = el.iter().position(|&b| b == b'-') else {
            return RangeClass::MustIgnore;
        };
        let (a, b) = (&el[..h], &el[h + 1..]);
        let spec = if a.is_empty() {
            match digits(b) {
                Some(n) => Spec::Suffix(n),
                None => return RangeClass::MustIgnore,
            }
        } else {
            let Some(first) = digits(a) else {
                return RangeClass::MustIgnore;
            };
            if b.is_empty() {
                Spec::From(first)
            } else {
                match digits(b) {
                    Some(last) => Spec::FromTo(first, last),
                    None => return RangeClass::MustIgnore,
                }
            }
        };
        specs.push(spec);
    }
    if specs.is_empty() {
        return RangeClass::MustIgnore; // 1#: at least one element
    }
    RangeClass::Specs { specs, grey }
}

#[derive(Clone, Debug, PartialEq, Eq)]
pub struct Resolved {
    /// Inclusive ranges left after dropping specs that select nothing, in request order.
    pub ranges: Vec<(u64, u64)>,
    /// Some spec has last < first. RFC 7233 calls that spec invalid; C03 does not say
    /// whether it is dropped or voids the header, so both readings are admitted.
    pub has_inverted: bool,
    /// Some number does not fit in 64 bits ("2^64 (unparseable)" in C03's quantifier): the
    /// mathematical reading and ignoring the header are both admitted.
    pub has_huge: bool,
}

/// Resolves against an entity of `len > 0` bytes.
pub fn resolve(specs: &[Spec], len: u64) -> Resolved {
    assert!(len > 0);
    let l = len as u128;
    let mut r = Resolved {
        ranges: Vec::new(),
        has_inverted: false,
        has_huge: false,
    };
    let huge = |x: u128| x > u64::MAX as u128;
    for s in specs {
        match *s {
            Spec::FromTo(f, t) => {
                if huge(f) || huge(t) {
                    r.has_huge = true;
                }
                if t < f {
                    r.has_inverted = true;
                    continue;
                }
                if f >= l {
                    continue;
                }
                r.ranges.push((f as u64, t.min(l - 1) as u64));
            }
            Spec::From(f) => {
                if huge(f) {
                    r.has_huge = true;
                }
                if f >= l {
                    continue;
                }
                r.ranges.push((f as u64, (l - 1) as u64));
            }
            Spec::Suffix(n) => {
                if huge(n) {
                    r.has_huge = true;
                }
                if n == 0 {
                    continue;
                }
                r.ranges.push(((l - n.min(l)) as u64, (l - 1) as u64));
            }
        }
    }
    r
}

/// What C03 lets a multi-range request become.
#[derive(Clone, Copy, Debug, PartialEq, Eq)]
pub enum MultiZone {
    /// 2 * sum(len_i + 80) < L: must be multipart.
    MustMultipart,
    /// sum(len_i) >= L: must be the complete 200.
    MustFull,
    Either,
}

pub fn multi_zone(ranges: &[(u64, u64)], len: u64) -> MultiZone {
    let sum: u128 = ranges.iter().map(|(a, b)| (*b - *a) as u128 + 1).sum();
    let with_overhead = sum + 80 * ranges.len() as u128;
    if 2 * with_overhead < len as u128 {
        MultiZone::MustMultipart
    } else if sum >= len as u128 {
        MultiZone::MustFull
    } else {
        MultiZone::Either
    }
}

#[cfg(test)]
mod tests {
    use super::*;
    #[test]
    fn basics() {
        assert_eq!(classify(None), RangeClass::Absent);
        assert_eq!(classify(Some(b"items=0-1")), RangeClass::MustIgnore);
        assert_eq!(classify(Some(b"bytes=")), RangeClass::MustIgnore);
        assert_eq!(classify(Some(b"bytes=+1-2")), RangeClass::MustIgnore);
        assert_eq!(classify(Some(b"bytes=1-2-3")), RangeClass::MustIgnore);
        assert_eq!(
            classify(Some(b"bytes=0-1, -5,7-")),
            RangeClass::Specs {
                specs: vec![Spec::FromTo(0, 1), Spec::Suffix(5), Spec::From(7)],
                grey: false
            }
        );
        assert!(matches!(
            classify(Some(b"bytes=0-1 ,2-3")),
            RangeClass::Specs { grey: true, .. }
        ));
        let r = resolve(&[Spec::Suffix(0), Spec::Suffix(11), Spec::FromTo(0, u64::MAX as u128)], 10);
        assert_eq!(r.ranges, vec![(0, 9), (0, 9)]);
    }
}
