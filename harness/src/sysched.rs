//! Interleavings of FILE SYSTEM CALLS of real threads (C18).
//!
//! `ChunkedReadFile` shares one open file between all streams of an entity, and its reads run on
//! whatever thread polls the stream (`block_in_place`). Whether two streams polled on two threads
//! can disturb each other is decided by how the subject reads: a positioned read (`pread`) is
//! atomic with respect to the shared file offset, `lseek` + `read` is not. The window is two
//! system calls wide; free-running threads hit it by luck, if at all.
//!
//! Here every read-side file system call of a *controlled* thread is a decision point: the
//! executable defines `read`, `pread`, `pread64`, `lseek`, `lseek64`, `readv`, `preadv`,
//! `preadv64` itself, so the calls that std and the `libc` crate make bind to these wrappers at
//! link time; a wrapper asks the scheduler for its turn and then calls the C library's function
//! (looked up with `dlsym(RTLD_NEXT)`). Threads that are not controlled pass straight through.
//! Exactly one controlled thread runs at a time, so an execution is determined by its choice
//! vector, and `explore` enumerates all of them depth-first with iterative preemption bounding
//! (the canonical first option at every point is "the thread that ran last, if it can go on").
//!
//! One controlled execution at a time per process (the state is global).

use std::cell::Cell;
use std::sync::{Condvar, Mutex};

#[derive(Clone, Debug)]
pub struct Decision {
    /// thread ids that could go on, canonical order
    pub opts: Vec<usize>,
    pub chosen: usize,
    /// the call the chosen thread is about to make
    pub call: &'static str,
    /// the first option is the thread that ran last (choosing another one is a preemption)
    pub last_enabled: bool,
}

struct St {
    n: usize,
    waiting: Vec<bool>,
    finished: Vec<bool>,
    names: Vec<&'static str>,
    running: Option<usize>,
    granted: Option<usize>,
    last: Option<usize>,
    prefix: Vec<usize>,
    trace: Vec<Decision>,
    /// replay diverged (a choice index out of range) or a thread got stuck
    broken: Option<String>,
    /// threads that were granted a step and did not come back within BLOCK_MS: they block on
    /// something the wrappers do not see (a lock of the subject held by a thread that waits for
    /// its turn). They are treated as not runnable until they show up again.
    blocked: Vec<bool>,
    run_since: std::time::Instant,
    blocked_events: u32,
}

const BLOCK_MS: u128 = 300;

static CTL: Mutex<Option<St>> = Mutex::new(None);
static CV: Condvar = Condvar::new();

thread_local! {
    static ME: Cell<Option<usize>> = const { Cell::new(None) };
}

fn decide(st: &mut St) {
    if st.running.is_some() || st.granted.is_some() || st.broken.is_some() {
        return;
    }
    if (0..st.n).any(|t| !st.finished[t] && !st.waiting[t] && !st.blocked[t]) {
        return; // somebody has not arrived at its first point yet
    }
    let mut opts: Vec<usize> = (0..st.n).filter(|t| st.waiting[*t]).collect();
    if opts.is_empty() {
        return;
    }
    let mut last_enabled = false;
    if let Some(l) = st.last {
        if let Some(i) = opts.iter().position(|t| *t == l) {
            opts.remove(i);
            opts.insert(0, l);
            last_enabled = true;
        }
    }
    let k = st.trace.len();
    let c = st.prefix.get(k).copied().unwrap_or(0);
    if c >= opts.len() {
        st.broken = Some(format!("replay diverged at decision {k}: choice {c} of {} options", opts.len()));
        return;
    }
    let t = opts[c];
    st.trace.push(Decision { opts, chosen: c, call: st.names[t], last_enabled });
    st.granted = Some(t);
    st.last = Some(t);
}

/// Decision point of a controlled thread (no-op for every other thread).
pub fn point(name: &'static str) {
    let Some(me) = ME.try_with(|m| m.get()).ok().flatten() else { return };
    let mut g = CTL.lock().unwrap_or_else(|e| e.into_inner());
    {
        let Some(st) = g.as_mut() else { return };
        st.waiting[me] = true;
        st.blocked[me] = false;
        st.names[me] = name;
        if st.running == Some(me) {
            st.running = None;
        }
        decide(st);
    }
    CV.notify_all();
    let t0 = std::time::Instant::now();
    loop {
        {
            let Some(st) = g.as_mut() else { return };
            if st.broken.is_some() {
                // let everybody run to the end; the execution is discarded
                st.waiting[me] = false;
                return;
            }
            if st.granted == Some(me) {
                st.granted = None;
                st.waiting[me] = false;
                st.running = Some(me);
                st.run_since = std::time::Instant::now();
                return;
            }
            // the thread that was given the last step has not come back: it blocks outside the
            // interposed calls
            if let Some(t) = st.running {
                if t != me && st.run_since.elapsed().as_millis() > BLOCK_MS {
                    st.blocked[t] = true;
                    st.running = None;
                    st.blocked_events += 1;
                    decide(st);
                    CV.notify_all();
                    continue;
                }
            }
        }
        let (ng, _) = CV.wait_timeout(g, std::time::Duration::from_millis(50)).unwrap_or_else(|e| e.into_inner());
        g = ng;
        if t0.elapsed().as_secs() > 20 {
            if let Some(st) = g.as_mut() {
                st.broken = Some(format!("thread {me} waited 20 s for its turn at {name}"));
            }
            CV.notify_all();
        }
    }
}

fn finish(me: usize) {
    let mut g = CTL.lock().unwrap_or_else(|e| e.into_inner());
    if let Some(st) = g.as_mut() {
        st.finished[me] = true;
        st.waiting[me] = false;
        st.blocked[me] = false;
        if st.running == Some(me) {
            st.running = None;
        }
        decide(st);
    }
    drop(g);
    CV.notify_all();
}

/// Result of one controlled execution.
pub struct Exec<T> {
    pub results: Vec<std::thread::Result<T>>,
    pub trace: Vec<Decision>,
    /// how often a thread was found blocked outside the interposed calls
    pub blocked_events: u32,
}

pub enum RunError {
    /// the choice prefix does not fit this execution (the subject synchronises its threads by
    /// means the scheduler does not control, so executions are not a function of the choices)
    Diverged(String),
    /// the threads did not finish within 30 s
    Hang(Vec<Decision>),
}

/// Runs the bodies as controlled threads under the given choice prefix (then "first option"
/// everywhere).
pub fn run<T: Send + 'static>(bodies: Vec<Box<dyn FnOnce() -> T + Send>>, prefix: &[usize]) -> Result<Exec<T>, RunError> {
    // keep the interposed definitions in the link whatever the code generation units look like
    std::hint::black_box([read as *const () as usize, pread as *const () as usize, pread64 as *const () as usize, lseek as *const () as usize, lseek64 as *const () as usize, readv as *const () as usize, preadv as *const () as usize, preadv64 as *const () as usize]);
    let n = bodies.len();
    {
        let mut g = CTL.lock().unwrap_or_else(|e| e.into_inner());
        assert!(g.is_none(), "one controlled execution at a time");
        *g = Some(St { n, waiting: vec![false; n], finished: vec![false; n], names: vec!["start"; n], running: None, granted: None, last: None, prefix: prefix.to_vec(), trace: vec![], broken: None, blocked: vec![false; n], run_since: std::time::Instant::now(), blocked_events: 0 });
    }
    let (tx, rx) = std::sync::mpsc::channel::<(usize, std::thread::Result<T>)>();
    for (i, b) in bodies.into_iter().enumerate() {
        let tx = tx.clone();
        std::thread::spawn(move || {
            ME.with(|m| m.set(Some(i)));
            point("start");
            let r = std::panic::catch_unwind(std::panic::AssertUnwindSafe(b));
            ME.with(|m| m.set(None));
            finish(i);
            let _ = tx.send((i, r));
        });
    }
    drop(tx);
    let mut rs: Vec<Option<std::thread::Result<T>>> = (0..n).map(|_| None).collect();
    let t0 = std::time::Instant::now();
    let mut got = 0;
    while got < n {
        match rx.recv_timeout(std::time::Duration::from_secs(30).saturating_sub(t0.elapsed())) {
            Ok((i, r)) => {
                rs[i] = Some(r);
                got += 1;
            }
            Err(_) => {
                // the threads are abandoned (they may sit in the subject forever)
                let st = CTL.lock().unwrap_or_else(|e| e.into_inner()).take();
                return Err(RunError::Hang(st.map(|s| s.trace).unwrap_or_default()));
            }
        }
    }
    let st = CTL.lock().unwrap_or_else(|e| e.into_inner()).take().expect("state");
    match st.broken {
        Some(m) => Err(RunError::Diverged(m)),
        None => Ok(Exec { results: rs.into_iter().map(|r| r.expect("all reported")).collect(), trace: st.trace, blocked_events: st.blocked_events }),
    }
}

pub struct Explored {
    pub executions: u64,
    pub max_decisions: usize,
    pub max_preemptions_used: u32,
    /// the explorer stopped at this many executions (0 = not capped)
    pub capped_at: u64,
    pub calls_seen: std::collections::BTreeSet<&'static str>,
    /// executions whose choice prefix did not fit (see RunError::Diverged): skipped
    pub diverged: u64,
    /// threads found blocked outside the interposed calls, over all executions
    pub blocked_events: u64,
    /// an execution whose threads never finished: the decisions taken until then
    pub hang: Option<Vec<Decision>>,
}

/// Depth-first over choice vectors, at most `bound` preemptions per execution. `mk` builds fresh
/// bodies for every execution; `check` sees the results and the decisions of each one.
pub fn explore<T: Send + 'static>(
    bound: u32,
    cap: u64,
    mk: &mut dyn FnMut() -> Vec<Box<dyn FnOnce() -> T + Send>>,
    check: &mut dyn FnMut(&[usize], Vec<std::thread::Result<T>>, &[Decision]),
) -> Explored {
    let mut ex = Explored { executions: 0, max_decisions: 0, max_preemptions_used: 0, capped_at: 0, calls_seen: Default::default(), diverged: 0, blocked_events: 0, hang: None };
    let t0 = std::time::Instant::now();
    let mut stack: Vec<Vec<usize>> = vec![vec![]];
    while let Some(prefix) = stack.pop() {
        if cap != 0 && ex.executions >= cap {
            ex.capped_at = cap;
            break;
        }
        // a subject whose threads block each other makes every execution slow (each blocking is
        // noticed by a timeout): such shapes are cut by time, and the evidence says so
        if ex.blocked_events > 0 && t0.elapsed().as_secs() > 15 {
            ex.capped_at = ex.executions;
            break;
        }
        let (rs, trace) = match run(mk(), &prefix) {
            Ok(e) => {
                ex.blocked_events += e.blocked_events as u64;
                (e.results, e.trace)
            }
            Err(RunError::Diverged(_)) => {
                ex.diverged += 1;
                continue;
            }
            Err(RunError::Hang(tr)) => {
                ex.hang = Some(tr);
                break;
            }
        };
        ex.executions += 1;
        ex.max_decisions = ex.max_decisions.max(trace.len());
        for d in &trace {
            ex.calls_seen.insert(d.call);
        }
        let choices: Vec<usize> = trace.iter().map(|d| d.chosen).collect();
        check(&choices, rs, &trace);
        // preemptions before decision i
        let mut pre = vec![0u32; trace.len() + 1];
        for (i, d) in trace.iter().enumerate() {
            pre[i + 1] = pre[i] + u32::from(d.last_enabled && d.chosen != 0);
        }
        ex.max_preemptions_used = ex.max_preemptions_used.max(pre[trace.len()]);
        for i in (prefix.len()..trace.len()).rev() {
            let d = &trace[i];
            for alt in 1..d.opts.len() {
                let cost = pre[i] + u32::from(d.last_enabled);
                if cost > bound {
                    continue;
                }
                let mut p = choices[..i].to_vec();
                p.push(alt);
                stack.push(p);
            }
        }
    }
    ex
}

// ---- environment answers: short reads and errors at one chosen read call ----------------------
// A read may return fewer bytes than asked for, or fail (EIO, EINTR): answers the kernel is free to
// give and a local regular file never gives. A thread that armed an injection gets the chosen
// answer at its n-th read-side call and the C library's answer at all others.

#[derive(Clone, Copy, Debug, PartialEq, Eq, Hash)]
pub enum Inj {
    /// the call is made with at most this many bytes
    Short(usize),
    /// the call fails with this errno without reaching the kernel
    Errno(i32),
}

thread_local! {
    /// (index of the read call to answer differently, the answer); u32::MAX = only count
    static INJ: Cell<Option<(u32, Inj)>> = const { Cell::new(None) };
    static NCALL: Cell<u32> = const { Cell::new(0) };
}

/// Runs `f` on this thread with the injection armed; returns its result and the number of
/// read-side calls it made.
pub fn with_injection<T>(at: u32, inj: Inj, f: impl FnOnce() -> T) -> (T, u32) {
    std::hint::black_box([read as *const () as usize, pread as *const () as usize, pread64 as *const () as usize]);
    INJ.with(|i| i.set(Some((at, inj))));
    NCALL.with(|n| n.set(0));
    let r = std::panic::catch_unwind(std::panic::AssertUnwindSafe(f));
    INJ.with(|i| i.set(None));
    let n = NCALL.with(|n| n.get());
    match r {
        Ok(v) => (v, n),
        Err(p) => std::panic::resume_unwind(p),
    }
}

/// What the wrapper of a read-side call has to do: Ok(max bytes) or Err(errno).
fn answer(n: usize) -> Result<usize, i32> {
    let Some((at, inj)) = INJ.try_with(|i| i.get()).ok().flatten() else { return Ok(n) };
    let k = NCALL.with(|c| {
        let k = c.get();
        c.set(k + 1);
        k
    });
    if k != at {
        return Ok(n);
    }
    match inj {
        Inj::Short(m) => Ok(n.min(m.max(1))),
        Inj::Errno(e) => Err(e),
    }
}

unsafe fn fail(e: i32) -> libc::ssize_t {
    *libc::__errno_location() = e;
    -1
}

// ---- the interposed calls ---------------------------------------------------------------------

macro_rules! real {
    ($name:literal, $ty:ty) => {{
        static P: std::sync::atomic::AtomicUsize = std::sync::atomic::AtomicUsize::new(0);
        let mut p = P.load(std::sync::atomic::Ordering::Relaxed);
        if p == 0 {
            p = libc::dlsym(libc::RTLD_NEXT, concat!($name, "\0").as_ptr() as *const libc::c_char) as usize;
            if p == 0 {
                libc::abort();
            }
            P.store(p, std::sync::atomic::Ordering::Relaxed);
        }
        std::mem::transmute::<usize, $ty>(p)
    }};
}

#[no_mangle]
pub unsafe extern "C" fn read(fd: libc::c_int, buf: *mut libc::c_void, n: libc::size_t) -> libc::ssize_t {
    point("read");
    let n = match answer(n) {
        Ok(n) => n,
        Err(e) => return fail(e),
    };
    real!("read", unsafe extern "C" fn(libc::c_int, *mut libc::c_void, libc::size_t) -> libc::ssize_t)(fd, buf, n)
}

#[no_mangle]
pub unsafe extern "C" fn pread(fd: libc::c_int, buf: *mut libc::c_void, n: libc::size_t, off: libc::off_t) -> libc::ssize_t {
    point("pread");
    let n = match answer(n) {
        Ok(n) => n,
        Err(e) => return fail(e),
    };
    real!("pread", unsafe extern "C" fn(libc::c_int, *mut libc::c_void, libc::size_t, libc::off_t) -> libc::ssize_t)(fd, buf, n, off)
}

#[no_mangle]
pub unsafe extern "C" fn pread64(fd: libc::c_int, buf: *mut libc::c_void, n: libc::size_t, off: libc::off64_t) -> libc::ssize_t {
    point("pread");
    let n = match answer(n) {
        Ok(n) => n,
        Err(e) => return fail(e),
    };
    real!("pread64", unsafe extern "C" fn(libc::c_int, *mut libc::c_void, libc::size_t, libc::off64_t) -> libc::ssize_t)(fd, buf, n, off)
}

#[no_mangle]
pub unsafe extern "C" fn lseek(fd: libc::c_int, off: libc::off_t, whence: libc::c_int) -> libc::off_t {
    point("lseek");
    real!("lseek", unsafe extern "C" fn(libc::c_int, libc::off_t, libc::c_int) -> libc::off_t)(fd, off, whence)
}

#[no_mangle]
pub unsafe extern "C" fn lseek64(fd: libc::c_int, off: libc::off64_t, whence: libc::c_int) -> libc::off64_t {
    point("lseek");
    real!("lseek64", unsafe extern "C" fn(libc::c_int, libc::off64_t, libc::c_int) -> libc::off64_t)(fd, off, whence)
}

#[no_mangle]
pub unsafe extern "C" fn readv(fd: libc::c_int, iov: *const libc::iovec, cnt: libc::c_int) -> libc::ssize_t {
    point("readv");
    real!("readv", unsafe extern "C" fn(libc::c_int, *const libc::iovec, libc::c_int) -> libc::ssize_t)(fd, iov, cnt)
}

#[no_mangle]
pub unsafe extern "C" fn preadv(fd: libc::c_int, iov: *const libc::iovec, cnt: libc::c_int, off: libc::off_t) -> libc::ssize_t {
    point("preadv");
    real!("preadv", unsafe extern "C" fn(libc::c_int, *const libc::iovec, libc::c_int, libc::off_t) -> libc::ssize_t)(fd, iov, cnt, off)
}

#[no_mangle]
pub unsafe extern "C" fn preadv64(fd: libc::c_int, iov: *const libc::iovec, cnt: libc::c_int, off: libc::off64_t) -> libc::ssize_t {
    point("preadv");
    real!("preadv64", unsafe extern "C" fn(libc::c_int, *const libc::iovec, libc::c_int, libc::off64_t) -> libc::ssize_t)(fd, iov, cnt, off)
}

// ---- the wall clock ---------------------------------------------------------------------------
// `SystemTime::now()` is `clock_gettime(CLOCK_REALTIME)`. A thread that set a clock with
// `set_clock` reads that value (and nothing else changes: other clock ids, other threads).

thread_local! {
    static CLOCK: Cell<Option<(i64, i64)>> = const { Cell::new(None) };
    static CLOCK_READS: Cell<u64> = const { Cell::new(0) };
}

/// Sets (or, with None, releases) the wall clock of the calling thread: seconds and nanoseconds
/// since the epoch.
pub fn set_clock(t: Option<(i64, i64)>) {
    std::hint::black_box(clock_gettime as *const () as usize);
    CLOCK.with(|c| c.set(t));
}

/// How often the calling thread read a controlled wall clock.
pub fn clock_reads() -> u64 {
    CLOCK_READS.with(|c| c.get())
}

#[no_mangle]
pub unsafe extern "C" fn clock_gettime(id: libc::clockid_t, ts: *mut libc::timespec) -> libc::c_int {
    if id == libc::CLOCK_REALTIME && !ts.is_null() {
        if let Some((s, n)) = CLOCK.try_with(|c| c.get()).ok().flatten() {
            let _ = CLOCK_READS.try_with(|c| c.set(c.get() + 1));
            (*ts).tv_sec = s as libc::time_t;
            (*ts).tv_nsec = n as _;
            return 0;
        }
    }
    real!("clock_gettime", unsafe extern "C" fn(libc::clockid_t, *mut libc::timespec) -> libc::c_int)(id, ts)
}
