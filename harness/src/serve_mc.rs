//! `serve_mc`: exhaustive enumeration of requests x entities x entity-stream answers against
//! the real `http_serve::serve`, judged by the reference model in `oracle::serve`.

use crate::ent::{EntSpec, Script};
use crate::gen;
use crate::oracle::date::{fmt_asctime, fmt_imf, fmt_rfc850};
use crate::oracle::serve::{
    self as osv, check, check_head_mirror, check_validators, ent_to_json, model, run_serve, Finding,
    Model, Req, ServeObs, Shape,
};
use crate::report::{hash_of, par_for, threads, Run, Stats, Tier};
use serde_json::json;

pub const HORIZON: usize = 5000;

fn case_json(req: &Req, ent: &EntSpec, extra: usize) -> serde_json::Value {
    json!({"engine": "serve_mc", "request": req.to_json(), "entity": ent_to_json(ent), "extra_polls": extra})
}

fn ent_key(e: &EntSpec) -> (u64, Option<Vec<u8>>, Option<std::time::SystemTime>, usize) {
    (e.len, e.etag.clone(), e.mtime, e.headers.len())
}

/// States / transitions of one execution: (model verdict class, body position).
fn record_trace(st: &mut Stats, m: &Model, shape_class: &str, obs: &ServeObs, req: &Req, ent: &EntSpec) {
    // reference-model verdict class: which conditional / range headers the request carries, what
    // validators the entity has, and what the model concluded at each stage
    let mut present = 0u8;
    for (i, h) in ["range", "if-range", "if-match", "if-none-match", "if-modified-since", "if-unmodified-since"].iter().enumerate() {
        if req.get(h).is_some() {
            present |= 1 << i;
        }
    }
    let ent_class = (ent.etag.as_ref().map(|e| e.starts_with(b"W/")), ent.mtime.is_some(), ent.len.min(3));
    let cls = (m.method, m.cond, m.gate, shape_class.to_string(), present, ent_class, m.shapes.iter().map(|s| s.class()).collect::<Vec<_>>());
    let mut frames = 0u32;
    let mut prev = st.state(&(&cls, 0u32, obs.body.steps.first().map(|(s, _)| (s.lower, s.is_end))));
    for (i, (_, o)) in obs.body.steps.iter().enumerate() {
        if o.is_data() {
            frames += 1;
        }
        let next_sample = obs
            .body
            .steps
            .get(i + 1)
            .map(|(s, _)| (s.lower, s.is_end))
            .or(obs.body.last.map(|s| (s.lower, s.is_end)));
        let cur = st.state(&(&cls, frames.min(8), next_sample, o.kind()));
        st.transition(prev, hash_of(&o.kind()), cur);
        prev = cur;
    }
}

pub struct Eval<'a> {
    pub prop: &'a str,
    pub extra_polls: usize,
}

thread_local! {
    /// The last few cases executed on this worker thread (most recent last): the candidates for
    /// "an earlier call left state behind" when a case does not reproduce.
    static RECENT: std::cell::RefCell<std::collections::VecDeque<(Req, EntSpec)>> = const { std::cell::RefCell::new(std::collections::VecDeque::new()) };
}

/// Runs `f` on a new OS thread: no thread-local state of the subject survives from earlier calls.
pub fn on_fresh_thread<T: Send>(f: impl FnOnce() -> T + Send) -> T {
    std::thread::scope(|s| s.spawn(f).join().expect("fresh thread"))
}

/// Executes `history` (each request drained), then `req`, all on one fresh thread.
pub fn run_after(history: &[(Req, EntSpec)], req: &Req, ent: &EntSpec, extra: usize) -> Option<ServeObs> {
    on_fresh_thread(|| {
        for (r, e) in history {
            let _ = run_serve(r, e, 1, HORIZON);
        }
        run_serve(req, ent, extra, HORIZON)
    })
}

impl Eval<'_> {
    /// One execution + oracle. Returns the observation and the findings for this property.
    pub fn run(&self, req: &Req, ent: &EntSpec, st: &mut Stats, order: u64) -> Option<(ServeObs, Model)> {
        let obs = run_serve(req, ent, self.extra_polls, HORIZON)?;
        st.evaluations += 1;
        let m = model(req, ent);
        let mut fs: Vec<Finding> = Vec::new();
        check(req, ent, &obs, &m, &mut fs);
        if self.prop == "C14" {
            check_validators(req, ent, &obs, &mut fs);
        }
        let shape_class = match obs.status {
            206 if obs.hdr("content-range").is_some() => "206-single".to_string(),
            206 => "206-multi".to_string(),
            0 => "panic".to_string(),
            s => s.to_string(),
        };
        record_trace(st, &m, &shape_class, &obs, req, ent);
        let term = obs
            .body
            .first_terminal()
            .map(|t| obs.body.steps[t].1.kind())
            .unwrap_or("none");
        st.outcome(format!("{shape_class}/{term}"));
        self.report(req, ent, &obs, fs, st, order);
        RECENT.with(|r| {
            let mut r = r.borrow_mut();
            if r.len() >= 3 {
                r.pop_front();
            }
            r.push_back((req.clone(), ent.clone()));
        });
        Some((obs, m))
    }

    pub fn report(&self, req: &Req, ent: &EntSpec, obs: &ServeObs, fs: Vec<Finding>, st: &mut Stats, order: u64) {
        let mut checked = false;
        for fi in fs {
            if !fi.props.contains(&self.prop) {
                continue;
            }
            if !checked {
                // Determinism: the same case must give the same observation again.
                let again = run_serve(req, ent, self.extra_polls, HORIZON).expect("rerun");
                if again.stable_repr() != obs.stable_repr() {
                    // Either the harness is not deterministic (machinery failure), or the subject
                    // keeps state between calls. From a clean thread the case must be reproducible.
                    let f1 = run_after(&[], req, ent, self.extra_polls).expect("rerun");
                    let f2 = run_after(&[], req, ent, self.extra_polls).expect("rerun");
                    if f1.stable_repr() != f2.stable_repr() {
                        // not even reproducible from a fresh thread: process-wide state (or the
                        // clock) decides the answer. The harness itself is deterministic -- this
                        // never fires on the unchanged tree -- so it is the subject's doing.
                        let extra = self.extra_polls;
                        st.violation(order, format!("{}:not-reproducible", fi.key), format!("{} -- and the same request gives different responses when repeated (process-wide state or the clock decides)", fi.msg), || {
                            let mut c = case_json(req, ent, extra);
                            c["observed"] = obs.to_json();
                            c
                        });
                        return;
                    }
                    // serve() is not a function of its inputs: look for the earlier call that matters
                    let recent: Vec<(Req, EntSpec)> = RECENT.with(|r| r.borrow().iter().cloned().collect());
                    let mut found: Option<Vec<(Req, EntSpec)>> = None;
                    for k in 1..=recent.len() {
                        let h = recent[recent.len() - k..].to_vec();
                        if let Some(o) = run_after(&h, req, ent, self.extra_polls) {
                            if o.stable_repr() == obs.stable_repr() {
                                found = Some(h);
                                break;
                            }
                        }
                    }
                    let extra = self.extra_polls;
                    st.violation(order, format!("{}:after-earlier-calls", fi.key), format!("{} -- and the same request gives a different response on a fresh thread: serve() keeps state between calls{}", fi.msg, if found.is_some() { "" } else { " (the earlier calls that matter could not be identified; not replayable)" }), || {
                        let mut c = case_json(req, ent, extra);
                        c["observed"] = obs.to_json();
                        c["history"] = json!(found.as_ref().map(|h| h.iter().map(|(r, e)| json!({"request": r.to_json(), "entity": ent_to_json(e)})).collect::<Vec<_>>()));
                        c
                    });
                    return;
                }
                checked = true;
            }
            let extra = self.extra_polls;
            st.violation(order, fi.key.clone(), fi.msg.clone(), || {
                let mut c = case_json(req, ent, extra);
                c["observed"] = obs.to_json();
                c
            });
        }
    }
}

fn ent(len: u64, etag: Option<&[u8]>, mtime: Option<std::time::SystemTime>, headers: Vec<(String, Vec<u8>)>, scripts: Vec<Script>) -> EntSpec {
    EntSpec {
        len,
        etag: etag.map(|e| e.to_vec()),
        mtime,
        headers,
        scripts,
        hdr_mode: 0,
    }
}

/// Scripts for each expected get_range call of the shape the model predicts for GET.
fn expected_calls(m: &Model) -> Vec<Vec<(u64, u64)>> {
    // one entry per admissible body-bearing shape
    let mut v = Vec::new();
    for s in &m.shapes {
        match s {
            Shape::Full => {}
            Shape::Single(a, b) => v.push(vec![(*a, *b + 1)]),
            Shape::Multi(r) => v.push(r.iter().map(|(a, b)| (*a, *b + 1)).collect()),
            _ => {}
        }
    }
    v
}

/// Enumerates honouring script vectors for a request: the first call gets every script, the
/// later calls (multipart) rotate through the list so that every part sees every script at
/// least once without forming the full product.
/// A part delivered byte by byte (up to 12 chunks) with three Pending polls in a row before
/// every chunk and an empty chunk in between: the "long" entity-stream answer.
fn long_script(n: u64) -> Script {
    use crate::ent::Ev;
    let mut evs = Vec::new();
    let pieces = n.min(12);
    let mut left = n;
    for i in 0..pieces {
        evs.extend([Ev::Pending, Ev::Pending, Ev::Pending]);
        let d = if i + 1 == pieces { left } else { 1 };
        evs.push(Ev::Data(d));
        left -= d;
        if i % 2 == 0 {
            evs.push(Ev::Data(0));
        }
    }
    if n == 0 {
        evs.extend([Ev::Pending, Ev::Pending, Ev::Pending, Ev::Data(0)]);
    }
    Script::of(evs)
}

fn script_vectors(calls: &[(u64, u64)], kmax: usize, dev: usize, max_events: usize, full_product_upto: usize) -> Vec<Vec<Script>> {
    if calls.is_empty() {
        return vec![vec![]];
    }
    let mut out = script_vectors_inner(calls, kmax, dev, max_events, full_product_upto);
    out.push(calls.iter().map(|(a, b)| long_script(b - a)).collect());
    out
}

fn script_vectors_inner(calls: &[(u64, u64)], kmax: usize, dev: usize, max_events: usize, full_product_upto: usize) -> Vec<Vec<Script>> {
    let per: Vec<Vec<Script>> = calls
        .iter()
        .map(|(a, b)| gen::honour_scripts(b - a, kmax, dev, max_events))
        .collect();
    let total: usize = per.iter().fold(1usize, |a, p| a.saturating_mul(p.len()));
    let mut out = Vec::new();
    if total <= full_product_upto {
        let mut idx = vec![0usize; per.len()];
        loop {
            out.push(idx.iter().enumerate().map(|(k, i)| per[k][*i].clone()).collect());
            let mut k = 0;
            loop {
                idx[k] += 1;
                if idx[k] < per[k].len() {
                    break;
                }
                idx[k] = 0;
                k += 1;
                if k == per.len() {
                    return out;
                }
            }
        }
    }
    let longest = per.iter().map(|p| p.len()).max().unwrap();
    for i in 0..longest {
        out.push(
            per.iter()
                .enumerate()
                .map(|(k, p)| p[(i + k * 7) % p.len()].clone())
                .collect(),
        );
    }
    out
}

// -------------------------------------------------------------------------------------------
// Request alphabets

fn range_classes(l: u64) -> Vec<(&'static str, Option<String>)> {
    let lm1 = l.saturating_sub(1);
    vec![
        ("absent", None),
        ("one-sat", Some(format!("bytes={}-{}", l / 3, l / 2))),
        ("first-byte", Some("bytes=0-0".to_string())),
        ("unsat", Some(format!("bytes={l}-"))),
        ("two-small", Some(format!("bytes=0-0,{lm1}-{lm1}"))),
        ("three-small", Some("bytes=0-1, 2-2,-1".to_string())),
        ("two-large", Some(format!("bytes=0-{lm1},0-"))),
        ("suffix", Some(format!("bytes=-{}", l.clamp(1, 5)))),
        ("open", Some(format!("bytes={}-", l / 2))),
        ("garbage", Some("bytes=abc".to_string())),
        // two ranges leaving a ~180-byte window: for L near 2^64 the exact multipart length crosses
        // 2^64 although the 80-bytes-per-part estimate does not
        ("all-but-window", Some(format!("bytes=0-{},{lm1}-{lm1}", l.saturating_sub(180)))),
        // a range that ends at 10^k - 1 for the largest k that fits (digit-count boundaries)
        ("pow10-end", {
            let mut p = 1u64;
            while p <= l / 10 {
                p *= 10;
            }
            Some(format!("bytes=0-0,{}-{}", p.saturating_sub(2), p.saturating_sub(1).min(lm1)))
        }),
    ]
}

fn strong_of(e: &Option<Vec<u8>>) -> Vec<u8> {
    match e {
        Some(t) if !t.starts_with(b"W/") => t.clone(),
        _ => b"\"v1\"".to_vec(),
    }
}

fn cond_values(etag: &Option<Vec<u8>>, which: &str) -> Vec<Option<Vec<u8>>> {
    match which {
        "tags" => vec![
            None,
            Some(b"*".to_vec()),
            Some(etag.clone().unwrap_or(b"\"v1\"".to_vec())),
            Some(b"\"zz\"".to_vec()),
            Some(b"\"unterminated".to_vec()),
        ],
        "dates" => vec![
            None,
            Some(fmt_imf(gen::LM - 86_400).into_bytes()),
            Some(fmt_imf(gen::LM + 86_400).into_bytes()),
            Some(b"yesterday".to_vec()),
        ],
        "if-range" => vec![
            None,
            Some(strong_of(etag)),
            Some(b"\"zz\"".to_vec()),
            Some(fmt_imf(gen::LM).into_bytes()),
        ],
        _ => unreachable!(),
    }
}

fn add(req: &Req, name: &str, v: &Option<Vec<u8>>) -> Req {
    match v {
        None => req.clone(),
        Some(v) => req.clone().with(name, v),
    }
}

// -------------------------------------------------------------------------------------------
// C01 (and the serve-side space of C12 / C15 / C20)

pub struct C01Space {
    pub lens: Vec<u64>,
    pub etags: Vec<Option<Vec<u8>>>,
    pub mtimes: Vec<Option<std::time::SystemTime>>,
    pub methods: Vec<&'static str>,
    pub kmax: usize,
    pub dev: usize,
    pub max_events: usize,
}

impl C01Space {
    pub fn new(tier: Tier) -> C01Space {
        C01Space {
            lens: tier.pick(gen::LENS_THIN.to_vec(), gen::LENS_FULL.to_vec()),
            etags: vec![None, Some(b"\"v1\"".to_vec())],
            mtimes: vec![None, Some(gen::t(gen::LM, 500_000_000))],
            methods: vec!["GET", "POST", "FOO"],
            kmax: tier.pick(3, 4),
            dev: tier.pick(1, 2),
            max_events: tier.pick(3, 4),
        }
    }
    /// Outer items: (len, etag, mtime, method, range class).
    pub fn outer(&self) -> Vec<(u64, Option<Vec<u8>>, Option<std::time::SystemTime>, &'static str, usize)> {
        let mut v = Vec::new();
        for &l in &self.lens {
            for e in &self.etags {
                for mt in &self.mtimes {
                    for &me in &self.methods {
                        for rc in 0..range_classes(l).len() {
                            v.push((l, e.clone(), *mt, me, rc));
                        }
                    }
                }
            }
        }
        v
    }
    /// Calls `body(req, ent_without_scripts, inner_index)` for every request of one outer item.
    pub fn requests(&self, item: &(u64, Option<Vec<u8>>, Option<std::time::SystemTime>, &'static str, usize), mut body: impl FnMut(Req)) {
        let (l, etag, _mt, me, rc) = item;
        let base = add(&Req::new(me), "range", &range_classes(*l)[*rc].1.clone().map(|s| s.into_bytes()));
        for ir in cond_values(etag, "if-range") {
            let r1 = add(&base, "if-range", &ir);
            for im in cond_values(etag, "tags") {
                let r2 = add(&r1, "if-match", &im);
                for inm in cond_values(etag, "tags") {
                    let r3 = add(&r2, "if-none-match", &inm);
                    for ims in cond_values(etag, "dates") {
                        let r4 = add(&r3, "if-modified-since", &ims);
                        for ius in cond_values(etag, "dates") {
                            body(add(&r4, "if-unmodified-since", &ius));
                        }
                    }
                }
            }
        }
    }
}

/// Runs one request against every honouring chunking of the calls the model predicts.
fn run_with_scripts(ev: &Eval, req: &Req, base: &EntSpec, sp: (usize, usize, usize), st: &mut Stats, order: &mut u64, mut each: impl FnMut(&Req, &EntSpec, &ServeObs, &Model, &mut Stats, u64)) {
    let m = model(req, base);
    let bodyful = req.method == "GET"
        && matches!(m.cond, crate::oracle::cond::CondVerdict::Continue | crate::oracle::cond::CondVerdict::Unconstrained)
        && m.shapes.iter().any(|s| matches!(s, Shape::Full | Shape::Single(..) | Shape::Multi(_)));
    let mut call_sets: Vec<Vec<(u64, u64)>> = if bodyful { expected_calls(&m) } else { vec![] };
    if bodyful && m.shapes.contains(&Shape::Full) {
        call_sets.push(vec![(0, base.len)]);
    }
    if call_sets.is_empty() {
        call_sets.push(vec![]);
    }
    call_sets.dedup();
    for calls in call_sets {
        for scripts in script_vectors(&calls, sp.0, sp.1, sp.2, 64) {
            let mut e = base.clone();
            e.scripts = scripts;
            *order += 1;
            if let Some((obs, m)) = ev.run(req, &e, st, *order) {
                each(req, &e, &obs, &m, st, *order);
            }
        }
    }
}

pub fn run_c01(run: &mut Run) -> Stats {
    let sp = C01Space::new(run.tier);
    let outer = sp.outer();
    run.rule = "full categorical product: methods {GET,POST,FOO} x Range class (10) x If-Range (4) x If-Match (5) x If-None-Match (5) x If-Modified-Since (4) x If-Unmodified-Since (4) x entity length x etag {absent,strong} x mtime {absent,sub-second}; plus the multipart length families of C06 (a start / end / L at 10^k-1..10^k-3 for every k <= 19; L within 40 bytes of 2^64 with a 150..260-byte window) x 3 entity header sets; every request whose model predicts a body is run once per contract-honouring chunking (compositions into <= kmax chunks, <= dev empty-chunk/Pending insertions) of each predicted get_range call. non-trivial = distinct (request, entity, chunking) whose response carried or announced a body length".into();
    run.bounds = json!({"lengths": sp.lens.iter().map(|l| l.to_string()).collect::<Vec<_>>(), "kmax_chunks": sp.kmax, "benign_deviations": sp.dev, "max_events": sp.max_events, "extra_polls": 2});
    run.assumptions.push("entity streams honour the Entity contract (C07 covers the others)".into());
    let ev = Eval { prop: &run.prop.clone(), extra_polls: 2 };
    let spr = (sp.kmax, sp.dev, sp.max_events);
    // first the multipart length families (decimal widths at every power of ten, totals next to
    // 2^64): the announced length of a multipart body is computed, not copied
    let special = multipart_specials(run.tier);
    let hsets = gen::header_sets();
    run.extra.insert("multipart_length_families".into(), json!(special.len() * 3));
    let mut total = par_for(special.len() as u64 * 3, threads(), |i, st| {
        let (l, set) = &special[(i / 3) as usize];
        let hi = (i % 3) as usize;
        let h = format!("bytes={}", set.iter().map(|(a, b)| format!("{a}-{b}")).collect::<Vec<_>>().join(", "));
        let req = Req::new("GET").with("range", h.as_bytes());
        let base = ent(*l, Some(b"\"v1\""), Some(gen::t(gen::LM, 0)), hsets[hi].clone(), vec![]);
        let mut order = (1 << 62) + (i << 20);
        run_with_scripts(&ev, &req, &base, (2, 1, 3), st, &mut order, |req, e, obs, _m, st, _| {
            if obs.hdr("content-length").is_some() || !obs.body.steps.is_empty() {
                st.nontrivial(&(req, ent_key(e), &e.scripts));
            }
        });
    });
    let main = par_for(outer.len() as u64, threads(), |i, st| {
        let item = &outer[i as usize];
        let mut order = i << 32;
        sp.requests(item, |req| {
            let base = ent(item.0, item.1.as_deref(), item.2, vec![("content-type".into(), b"text/plain".to_vec())], vec![]);
            run_with_scripts(&ev, &req, &base, spr, st, &mut order, |req, e, obs, _m, st, _| {
                if obs.hdr("content-length").is_some() || !obs.body.steps.is_empty() {
                    st.nontrivial(&(req, ent_key(e), &e.scripts));
                }
                st.sample(2, || json!({"request": req.to_json(), "entity_len": e.len.to_string(), "scripts": e.scripts.iter().map(|s| s.to_json()).collect::<Vec<_>>(), "status": obs.status, "content_length": obs.hdr("content-length").map(|c| String::from_utf8_lossy(c).to_string()), "delivered": obs.body.delivered().to_string()}));
            });
        });
    });
    total.merge(main);
    total
}

// -------------------------------------------------------------------------------------------
// C02 / C03: Range-only requests

fn spec_strings(positions: &[u128]) -> Vec<String> {
    let mut v = Vec::new();
    for &a in positions {
        v.push(format!("{a}-"));
        v.push(format!("-{a}"));
        for &b in positions {
            v.push(format!("{a}-{b}"));
        }
    }
    v
}

fn small_positions(l: u64) -> Vec<u128> {
    (0..=l as u128 + 2).collect()
}

fn boundary_positions(l: u64) -> Vec<u128> {
    let l = l as u128;
    let mut v = vec![
        0,
        1,
        l / 2,
        l.saturating_sub(2),
        l.saturating_sub(1),
        l,
        l + 1,
        1 << 32,
        1 << 63,
        (1 << 64) - 2,
        (1 << 64) - 1,
    ];
    v.sort();
    v.dedup();
    v
}

pub fn run_c02(run: &mut Run) -> Stats {
    let tier = run.tier;
    let small: Vec<u64> = vec![1, 2, 3, 9, 10, 11];
    let large: Vec<u64> = tier.pick(vec![100, 240, 65_537, 1 << 32, 1 << 63, u64::MAX], vec![99, 100, 101, 159, 160, 161, 162, 240, 400, 1000, 65_535, 65_536, 65_537, (1 << 32) - 1, 1 << 32, (1 << 32) + 1, (1 << 63) - 1, 1 << 63, u64::MAX - 1, u64::MAX]);
    let (kmax, dev, max_events) = tier.pick((4, 2, 5), (4, 3, 7));
    run.rule = "GET x a handful of multi-range sets in descending / overlapping / suffix-first order (multipart: each part's bytes must be the ones its own Content-Range names) and every single byte-range-spec (three forms) with positions 0..=L+2 for L in {1,2,3,9,10,11} and boundary positions {0,1,L/2,L-2,L-1,L,L+1,2^32,2^63,2^64-2,2^64-1} for large L, plus the Range-less 200, x every contract-honouring chunking of the predicted get_range call; oracle = the response's own Content-Range parsed back + descriptor-exact comparison of every delivered byte with the position-dependent entity content + recorded get_range arguments. non-trivial = distinct (Range value, L, chunking) answered 200/206 with a body".into();
    run.bounds = json!({"small_L": small, "large_L": large.iter().map(|l| l.to_string()).collect::<Vec<_>>(), "kmax_chunks": kmax, "benign_deviations": dev, "max_events": max_events});
    run.assumptions.push("entity streams honour the Entity contract".into());
    let mut outer: Vec<(u64, Option<String>)> = Vec::new();
    for &l in small.iter().chain(large.iter()) {
        outer.push((l, None));
        let pos = if l <= 11 { small_positions(l) } else { boundary_positions(l) };
        for s in spec_strings(&pos) {
            outer.push((l, Some(format!("bytes={s}"))));
        }
    }
    // multi-range requests answered as multipart: the bytes of each part must be the ones its own
    // Content-Range names (descending, overlapping, suffix-first and duplicate orders)
    for &l in &[1000u64, 1 << 32, u64::MAX] {
        for set in ["40-49,5-9", "-6,0-9", "300-301,100-109,200-200", "5-9,5-9", "0-9,5-14,2-3", "7-,0-0", "0-299,400-400", "600-999,0-299", "100000-169999,5-304"] {
            if set.starts_with("100000") && l == 1000 {
                continue;
            }
            let set = if set == "7-" || set.starts_with("7-,") { format!("{}-,0-0", l - 7) } else { set.to_string() };
            outer.push((l, Some(format!("bytes={set}"))));
        }
    }
    let ev = Eval { prop: &run.prop.clone(), extra_polls: 1 };
    par_for(outer.len() as u64, threads(), |i, st| {
        let (l, r) = &outer[i as usize];
        let req = add(&Req::new("GET"), "range", &r.clone().map(|s| s.into_bytes()));
        let base = ent(*l, Some(b"\"v1\""), None, vec![], vec![]);
        let mut order = i << 32;
        run_with_scripts(&ev, &req, &base, (kmax, dev, max_events), st, &mut order, |req, e, obs, _m, st, _| {
            if matches!(obs.status, 200 | 206) {
                st.nontrivial(&(req, e.len, &e.scripts));
            }
            st.sample(2, || json!({"range": req.get("range").map(|r| String::from_utf8_lossy(r).to_string()), "L": e.len.to_string(), "scripts": e.scripts.iter().map(|s| s.to_json()).collect::<Vec<_>>(), "status": obs.status, "content_range": obs.hdr("content-range").map(|c| String::from_utf8_lossy(c).to_string()), "get_range": format!("{:?}", obs.get_range)}));
        });
    })
}

fn join_sets(specs: &[String], n: usize, seps: &[&str], out: &mut Vec<String>) {
    // all sequences of n specs, joined by each separator (same separator within a value)
    let mut idx = vec![0usize; n];
    loop {
        for sep in seps {
            out.push(format!(
                "bytes={}",
                idx.iter().map(|i| specs[*i].as_str()).collect::<Vec<_>>().join(sep)
            ));
            if n == 1 {
                break;
            }
        }
        let mut k = 0;
        loop {
            idx[k] += 1;
            if idx[k] < specs.len() {
                break;
            }
            idx[k] = 0;
            k += 1;
            if k == n {
                return;
            }
        }
    }
}

pub const NON_GRAMMAR: [&str; 16] = [
    "items=0-1",
    "bytes 0-1",
    "bytes=",
    "bytes=a-1",
    "bytes=1",
    "bytes=1-2-3",
    "bytes=--1",
    "bytes=1-0x2",
    "bytes=+1-2",
    "bytes=-+2",
    "bytes=1-+2",
    "bytes=0-1;2-3",
    "bytes=0-1,x",
    "bytes=0-1,,a",
    "=0-1",
    "bytes=1.0-2",
];

pub fn run_c03(run: &mut Run) -> Stats {
    let tier = run.tier;
    let seps: Vec<&str> = vec![",", ", ", ",\t "];
    let mut headers: Vec<(u64, String)> = Vec::new();
    // (a) exhaustive small positions, 1..2 specs
    for l in [1u64, 2, 3, 10] {
        let specs = spec_strings(&small_positions(l));
        let mut v = Vec::new();
        join_sets(&specs, 1, &seps, &mut v);
        join_sets(&specs, 2, &seps, &mut v);
        if l <= 2 && tier == Tier::Thorough {
            join_sets(&specs, 3, &[","], &mut v);
        }
        headers.extend(v.into_iter().map(|h| (l, h)));
    }
    // (b) boundary positions incl. 2^64, 1..n specs
    let n_max = 3;
    for l in tier.pick(vec![1u64, 10, 400, 1 << 32, u64::MAX], vec![1u64, 10, 240, 400, 1000, 1 << 32, 1 << 63, u64::MAX - 1, u64::MAX]) {
        let lq = l as u128;
        let mut pos = vec![0, 1, lq.saturating_sub(1), lq, lq + 1, 1 << 32, 1 << 63, (1 << 64) - 2, (1 << 64) - 1, 1 << 64];
        pos.sort();
        pos.dedup();
        let specs = spec_strings(&pos);
        let mut v = Vec::new();
        join_sets(&specs, 1, &seps, &mut v);
        join_sets(&specs, 2, &[","], &mut v);
        if n_max >= 3 {
            let thin: Vec<String> = specs.iter().step_by(tier.pick(7, 1)).cloned().collect();
            join_sets(&thin, 3, &[", "], &mut v);
            if tier == Tier::Thorough {
                let thin4: Vec<String> = specs.iter().step_by(9).cloned().collect();
                join_sets(&thin4, 4, &[","], &mut v);
            }
        }
        headers.extend(v.into_iter().map(|h| (l, h)));
    }
    // (c) multi-range thresholds: sizes chosen so that sum(len+80) and sum(len) straddle L/2, L
    for l in [161u64, 162, 240, 321, 322, 400, 1000] {
        for n in 2..=3u64 {
            let targets_with: Vec<i128> = vec![l as i128 / 2 - 1, l as i128 / 2, l as i128 / 2 + 1, l as i128 - 1, l as i128];
            let targets_plain: Vec<i128> = vec![l as i128 - 1, l as i128, l as i128 + 1];
            let mut sums: Vec<i128> = targets_with.iter().map(|t| t - 80 * n as i128).collect();
            sums.extend(targets_plain);
            for s in sums {
                if s < n as i128 {
                    continue;
                }
                // n ranges: first n-1 of one byte (at distinct offsets), last one takes the rest
                let rest = s as u64 - (n - 1);
                if rest == 0 || rest > l {
                    continue;
                }
                let mut specs: Vec<String> = (0..n - 1).map(|k| format!("{k}-{k}")).collect();
                specs.push(format!("{}-{}", l - rest, l - 1));
                headers.push((l, format!("bytes={}", specs.join(","))));
                // and as suffix / open forms
                let mut specs2: Vec<String> = (0..n - 1).map(|k| format!("{k}-{k}")).collect();
                specs2.push(format!("-{rest}"));
                headers.push((l, format!("bytes={}", specs2.join(", "))));
            }
        }
    }
    // (e) many specs: n small satisfiable ranges (n up to 40), with one unsatisfiable / suffix /
    // open spec at each position
    for l in [5000u64, 1 << 33, u64::MAX] {
        for n in [4usize, 5, 6, 8, 9, 12, 17, 40, 64, 65, 130, 300] {
            if n > 40 && l == 5000 {
                continue; // 10 * n would leave the entity
            }
            let base: Vec<String> = (0..n as u64).map(|k| format!("{}-{}", 10 * k, 10 * k + (k % 2))).collect();
            headers.push((l, format!("bytes={}", base.join(","))));
            for pos in (0..n).step_by(if n > 40 { 13 } else { 1 }) {
                for odd in [format!("{l}-"), "-3".to_string(), format!("{}-", l - 2), "7-6".to_string()] {
                    let mut v = base.clone();
                    v[pos] = odd;
                    headers.push((l, format!("bytes={}", v.join(if pos % 2 == 0 { "," } else { ", " }))));
                }
            }
        }
    }
    // (f) leading zeros: 1*DIGIT allows them, whatever the token length
    for l in [26u64, 1000, u64::MAX] {
        for z in [1usize, 2, 17, 18, 19, 20, 21, 40, 200] {
            let zz = "0".repeat(z);
            headers.push((l, format!("bytes={zz}1-2")));
            headers.push((l, format!("bytes=1-{zz}2")));
            headers.push((l, format!("bytes=-{zz}3")));
            headers.push((l, format!("bytes={zz}5-")));
            headers.push((l, format!("bytes=0-0,{zz}7-{zz}8")));
            headers.push((l, format!("bytes={zz}-{zz}")));
        }
    }
    // (d) outside the grammar / other units
    for l in [1u64, 10, 1000, u64::MAX] {
        for h in NON_GRAMMAR {
            headers.push((l, h.to_string()));
        }
        headers.push((l, "bytes=0-18446744073709551616".into()));
        headers.push((l, "bytes=18446744073709551616-".into()));
        headers.push((l, "bytes=-18446744073709551616".into()));
        headers.push((l, "bytes=-340282366920938463463374607431768211456".into()));
        headers.push((l, "bytes=0-99999999999999999999999999999999999999999".into()));
    }
    // (f) very long values: a thousand specs, positions padded with thousands of zeros
    for l in [100_000u64, 1 << 33] {
        for n in [600usize, 1000, 3000] {
            headers.push((l, format!("bytes={}", (0..n as u64).map(|k| format!("{}-{}", 20 * k, 20 * k)).collect::<Vec<_>>().join(","))));
            headers.push((l, format!("bytes={}", (0..n as u64).map(|k| format!("{}-{}", 20 * k, 20 * k)).collect::<Vec<_>>().join(", "))));
        }
        for z in [2000usize, 9000, 20_000] {
            let zz = "0".repeat(z);
            headers.push((l, format!("bytes={zz}1-{zz}2")));
            headers.push((l, format!("bytes=-{zz}3")));
            headers.push((l, format!("bytes={zz}5-,0-0")));
        }
    }
    headers.sort_by_key(|(l, h)| (h.len(), *l, h.clone()));
    headers.dedup();
    run.rule = "GET with only a Range header: (a) every 1- and 2-spec set over positions 0..=L+2 for L in {1,2,3,10}; (b) 1..n-spec sets over {0,1,L-1,L,L+1,2^32,2^63,2^64-2,2^64-1,2^64} for large L; (c) 2- and 3-range sets whose sizes put sum(len+80) on L/2-1,L/2,L/2+1,L-1,L and sum(len) on L-1,L,L+1; (d) other units and out-of-grammar values; (f) values of 8 KiB .. 40 KiB (600..3000 specs, positions padded with up to 20 000 zeros); separators ',' ', ' ',\\t '; multi-spec values against entities with each of the entity header sets (none .. 200-byte values, repeated names). Oracle: u128 reference resolver -> set of admissible (status, ranges); single chunk per get_range. non-trivial = distinct (L, Range value)".into();
    run.bounds = json!({"headers": headers.len(), "max_specs": n_max});
    let ev = Eval { prop: &run.prop.clone(), extra_polls: 1 };
    run.extra.insert("range_values".into(), json!(headers.len()));
    let hsets = gen::header_sets();
    par_for(headers.len() as u64, threads(), |i, st| {
        let (l, h) = &headers[i as usize];
        let req = Req::new("GET").with("range", h.as_bytes());
        // The decision between multipart and the complete 200 is stated in terms of the ranges
        // and the entity length alone: multi-spec requests are repeated against entities that
        // supply headers of their own (which a multipart body repeats in every part).
        let nsets = if h.contains(',') { hsets.len() } else { 1 };
        for (hi, hset) in hsets.iter().take(nsets).enumerate() {
            let e = ent(*l, Some(b"\"v1\""), None, hset.clone(), vec![]);
            if let Some((obs, m)) = ev.run(&req, &e, st, (i << 4) | hi as u64) {
                st.nontrivial(&(l, h, hi));
                st.count(&format!("model:{}", m.shapes.iter().map(|s| s.class()).collect::<Vec<_>>().join("|")), 1);
                st.sample(3, || json!({"L": l.to_string(), "range": h, "entity_header_set": hi, "admissible": format!("{:?}", m.shapes), "status": obs.status, "content_range": obs.hdr("content-range").map(|c| String::from_utf8_lossy(c).to_string())}));
            }
        }
    })
}

// -------------------------------------------------------------------------------------------
// C04

fn tag_lists(k: usize, seps: &[&str]) -> Vec<Option<Vec<u8>>> {
    let alphabet: [&[u8]; 6] = [b"\"v1\"", b"W/\"v1\"", b"\"zz\"", b"W/\"zz\"", b"\"a, b\"", b"\"v1-caf\xc3\xa9\xff\""];
    let mut out: Vec<Option<Vec<u8>>> = vec![None, Some(b"*".to_vec())];
    // long lists (5..12 tags, some of them long), with the one tag that matters at each position
    if k >= 3 {
        let filler: Vec<String> = (0..12).map(|i| if i % 4 == 3 { format!("\"{}\"", "x".repeat(40 + 30 * i)) } else { format!("\"f{i}, z\"") }).collect();
        for n in [5usize, 8, 12] {
            for pos in 0..n {
                for special in ["\"v1\"", "W/\"v1\""] {
                    let mut tags: Vec<&str> = filler[..n].iter().map(|s| s.as_str()).collect();
                    tags[pos] = special;
                    out.push(Some(tags.join(if pos % 2 == 0 { ", " } else { "," }).into_bytes()));
                }
            }
        }
    }
    for n in 1..=k {
        let mut idx = vec![0usize; n];
        'outer: loop {
            let tags: Vec<&[u8]> = idx.iter().map(|i| alphabet[*i]).collect();
            for (si, sep) in seps.iter().enumerate() {
                if n == 1 && si > 0 {
                    break;
                }
                if n > 2 && si > 0 {
                    break;
                }
                out.push(Some(tags.join(sep.as_bytes())));
            }
            let mut j = 0;
            loop {
                idx[j] += 1;
                if idx[j] < alphabet.len() {
                    break;
                }
                idx[j] = 0;
                j += 1;
                if j == n {
                    break 'outer;
                }
            }
        }
    }
    out
}

pub fn run_c04(run: &mut Run) -> Stats {
    let tier = run.tier;
    let seps = [",", ", ", ",\t"];
    let (ka, kb) = tier.pick((3, 1), (4, 2));
    let big = tag_lists(ka, &seps);
    let small = tag_lists(kb, &seps);
    let etags = gen::etags();
    let mtimes: Vec<Option<std::time::SystemTime>> = vec![None, Some(gen::t(gen::LM, 0)), Some(gen::t(gen::LM, 1_000_000)), Some(gen::t(gen::LM, 999_999_999))];
    // the linear date family also uses modification times at and just after the epoch
    let mut mtimes_odd = mtimes.clone();
    mtimes_odd.extend([Some(gen::t(0, 0)), Some(gen::t(0, 500_000_000)), Some(gen::t(1, 0)), Some(gen::t(4_102_444_800, 5))]);
    let mut dates: Vec<Option<Vec<u8>>> = vec![None, Some(fmt_imf(gen::LM - 1).into_bytes()), Some(fmt_imf(gen::LM).into_bytes()), Some(fmt_imf(gen::LM + 1).into_bytes())];
    if tier == Tier::Thorough {
        // obsolete spellings: one value of each (the three relations are covered by IMF-fixdate)
        dates.push(Some(fmt_rfc850(gen::LM).into_bytes()));
        dates.push(Some(fmt_asctime(gen::LM - 1).into_bytes()));
    }
    // outer: etag x mtime x ims x ius x method x (which header gets the big list)
    let mut outer = Vec::new();
    for e in &etags {
        for mt in &mtimes {
            for ims in &dates {
                for ius in &dates {
                    for me in ["GET", "HEAD"] {
                        for big_is_im in [true, false] {
                            outer.push((e.clone(), *mt, ims.clone(), ius.clone(), me, big_is_im));
                        }
                    }
                }
            }
        }
    }
    run.rule = format!("full categorical product: entity etag {{absent, strong, weak, strong containing ', '}} x mtime {{absent, whole second, +1ms, +999999999ns}} x If-Match x If-None-Match (absent, *, every list of 1..k tags over {{same strong, same weak, other strong, other weak, \"a, b\"}} with separators ',' ', ' ',\\t'; k=({ka},{kb}) and ({kb},{ka})) x If-Modified-Since x If-Unmodified-Since {{absent, LM-1s, LM, LM+1s{}}} x GET/HEAD; plus a linear date family (one date header in RFC 850 / asctime spelling for LM-1/LM/LM+1, or at the epoch, in 2100, in 9999 or 400 days after the run, the other date header in {{absent, LM-1, LM+1}}, tag lists of <= 1 element) and a linear tag family (the entity's tag one of 12 unusual tags -- empty, with comma / semicolon / '*' / backslash / obs-text, 300 bytes, weak -- against lists that contain it alone, first, last, between others, in the other strength, or not at all); oracle = straight-line RFC 7232 s.6 evaluation. non-trivial = distinct (entity validators, four header values, method) with at least one conditional header", if tier == Tier::Thorough { "; also RFC 850 and asctime spellings" } else { "" });
    run.bounds = json!({"big_lists": big.len(), "small_lists": small.len(), "dates": dates.len()});
    let ev = Eval { prop: &run.prop.clone(), extra_polls: 1 };
    // Linear family: other spellings and other magnitudes of the two dates. Each of the three
    // HTTP-date formats for each relation to the Last-Modified second, dates far in the future
    // (beyond the server's clock) and at the epoch; one date header varies, the other takes a few
    // values, tag lists of at most one element.
    let now_secs = std::time::SystemTime::now().duration_since(std::time::UNIX_EPOCH).unwrap().as_secs();
    let mut odd_dates: Vec<Vec<u8>> = Vec::new();
    for d in [gen::LM - 1, gen::LM, gen::LM + 1] {
        odd_dates.push(fmt_rfc850(d).into_bytes());
        odd_dates.push(fmt_asctime(d).into_bytes());
    }
    for d in [0u64, 1, now_secs + 400 * 86_400, 253_402_300_799 /* 9999-12-31 23:59:59 */, 4_102_444_800 /* 2100 */] {
        odd_dates.push(fmt_imf(d).into_bytes());
        odd_dates.push(fmt_asctime(d).into_bytes());
    }
    let tiny = tag_lists(1, &seps);
    let mut outer2 = Vec::new();
    for e in &etags {
        for mt in &mtimes_odd {
            for od in &odd_dates {
                for other in [None, Some(fmt_imf(gen::LM - 1).into_bytes()), Some(fmt_imf(gen::LM + 1).into_bytes())] {
                    for odd_is_ims in [true, false] {
                        for me in ["GET", "HEAD"] {
                            outer2.push((e.clone(), *mt, od.clone(), other.clone(), odd_is_ims, me));
                        }
                    }
                }
            }
        }
    }
    let st2 = par_for(outer2.len() as u64, threads(), |i, st| {
        let (e, mt, od, other, odd_is_ims, me) = &outer2[i as usize];
        let entity = ent(10, e.as_deref(), *mt, vec![], vec![]);
        let (ims, ius) = if *odd_is_ims { (Some(od.clone()), other.clone()) } else { (other.clone(), Some(od.clone())) };
        let base = add(&add(&Req::new(me), "if-modified-since", &ims), "if-unmodified-since", &ius);
        let mut order = (1u64 << 60) | (i << 16);
        for im in &tiny {
            let r1 = add(&base, "if-match", im);
            for inm in &tiny {
                let req = add(&r1, "if-none-match", inm);
                order += 1;
                if let Some((obs, m)) = ev.run(&req, &entity, st, order) {
                    st.nontrivial(&(&req, ent_key(&entity)));
                    st.count(&format!("date-family-verdict:{:?}", m.cond), 1);
                    st.sample(1, || json!({"request": req.to_json(), "verdict": format!("{:?}", m.cond), "status": obs.status}));
                }
            }
        }
    });
    run.bounds["odd_dates"] = json!(odd_dates.iter().map(|d| String::from_utf8_lossy(d).to_string()).collect::<Vec<_>>());
    // Linear family: unusual entity tags (empty, with comma / semicolon / '*' / backslash /
    // obs-text, 300 bytes; strong and weak) as the entity's tag, against lists that contain that
    // very tag -- alone, first, last, in the other strength -- or do not.
    let rich = gen::etags_rich();
    let st3 = par_for(rich.len() as u64, threads(), |i, st| {
        let Some(tag) = rich[i as usize].clone() else { return };
        let opaque: Vec<u8> = tag.strip_prefix(b"W/").unwrap_or(&tag).to_vec();
        let mut weak = b"W/".to_vec();
        weak.extend_from_slice(&opaque);
        let join = |a: &[u8], b: &[u8], sep: &[u8]| -> Vec<u8> { [a, sep, b].concat() };
        let mut lists: Vec<Vec<u8>> = vec![tag.clone(), opaque.clone(), weak.clone(), b"\"zz\"".to_vec()];
        for other in [&b"\"zz\""[..], b"W/\"zz\"", b"\"\"", b"\"a, b\""] {
            for sep in [&b","[..], b", "] {
                lists.push(join(&tag, other, sep));
                lists.push(join(other, &tag, sep));
                lists.push(join(other, &weak, sep));
                lists.push(join(&join(other, &opaque, sep), other, sep));
            }
        }
        for sep in [&b","[..], b", "] {
            lists.push(join(b"\"zz\"", b"\"yy\"", sep));
            lists.push(join(&join(b"\"x\"", b"\"y\"", sep), b"W/\"z\"", sep));
        }
        lists.sort();
        lists.dedup();
        let mut order = (1u64 << 59) | (i << 20);
        for mt in [None, Some(gen::t(gen::LM, 0))] {
            let entity = ent(10, Some(&tag), mt, vec![], vec![]);
            for me in ["GET", "HEAD"] {
                for (hdr, other_hdr) in [("if-match", "if-none-match"), ("if-none-match", "if-match")] {
                    for l in &lists {
                        for other in [None, Some(&lists[0])] {
                            let mut req = Req::new(me).with(hdr, l);
                            if let Some(o) = other {
                                req = req.with(other_hdr, o);
                            }
                            order += 1;
                            if let Some((_, m)) = ev.run(&req, &entity, st, order) {
                                st.nontrivial(&(&req, ent_key(&entity)));
                                st.count(&format!("tag-family-verdict:{:?}", m.cond), 1);
                            }
                        }
                    }
                }
            }
        }
    });
    // Linear family: the tag list split over TWO header lines (judged where "first line only" and
    // "one combined list" give the same verdict: the matching tag on the first line, or on none).
    let st4 = {
        let mut st = Stats::new();
        let mut order = 1u64 << 58;
        for e in &etags {
            let Some(tag) = e.clone() else { continue };
            for mt in [None, Some(gen::t(gen::LM, 0))] {
                let entity = ent(10, Some(&tag), mt, vec![], vec![]);
                let others: [&[u8]; 3] = [b"\"zz\"", b"W/\"yy\"", b"\"zz\", \"yy\""];
                for hdr in ["if-match", "if-none-match"] {
                    for me in ["GET", "HEAD"] {
                        for o1 in others {
                            for o2 in others {
                                for lines in [vec![&tag[..], o1], vec![&tag[..], o1, o2], vec![o1, o2], vec![&b"*"[..], o1], vec![&[&tag[..], b", ", o2].concat()[..], o1]].iter() {
                                    let mut req = Req::new(me);
                                    for l in lines {
                                        req = req.with(hdr, l);
                                    }
                                    if mt.is_some() {
                                        req = req.with(if hdr == "if-match" { "if-unmodified-since" } else { "if-modified-since" }, fmt_imf(gen::LM).as_bytes());
                                    }
                                    order += 1;
                                    if let Some((_, m)) = ev.run(&req, &entity, &mut st, order) {
                                        st.nontrivial(&(&req, ent_key(&entity)));
                                        st.count(&format!("two-line-family:{}", if m.repeated { "not-judged" } else { "judged" }), 1);
                                    }
                                }
                            }
                        }
                    }
                }
            }
        }
        st
    };
    let mut total = par_for(outer.len() as u64, threads(), |i, st| {
        let (e, mt, ims, ius, me, big_is_im) = &outer[i as usize];
        let entity = ent(10, e.as_deref(), *mt, vec![], vec![]);
        // the longest lists (k = 4) only against the strong etag, the others get k - 1
        let trim = tier == Tier::Thorough && e.as_deref() != Some(b"\"v1\"");
        let big_t: Vec<Option<Vec<u8>>>;
        let big_ref = if trim {
            big_t = tag_lists(ka - 1, &seps);
            &big_t
        } else {
            &big
        };
        let (ims_l, inm_l) = if *big_is_im { (big_ref, &small) } else { (&small, big_ref) };
        let mut order = i << 32;
        let base = add(&add(&Req::new(me), "if-modified-since", ims), "if-unmodified-since", ius);
        for im in ims_l {
            let r1 = add(&base, "if-match", im);
            for inm in inm_l {
                let req = add(&r1, "if-none-match", inm);
                order += 1;
                if let Some((obs, m)) = ev.run(&req, &entity, st, order) {
                    if !req.headers.is_empty() {
                        st.nontrivial(&(&req, ent_key(&entity)));
                    }
                    st.count(&format!("verdict:{:?}", m.cond), 1);
                    st.sample(2, || json!({"request": req.to_json(), "etag": e.as_ref().map(|t| String::from_utf8_lossy(t).to_string()), "mtime_nanos": mt.map(|m| m.duration_since(std::time::UNIX_EPOCH).unwrap().subsec_nanos()), "verdict": format!("{:?}", m.cond), "status": obs.status}));
                }
            }
        }
    });
    total.merge(st2);
    total.merge(st3);
    total.merge(st4);
    total
}

// -------------------------------------------------------------------------------------------
// C05

pub fn run_c05(run: &mut Run) -> Stats {
    let tier = run.tier;
    let etags: Vec<Option<Vec<u8>>> = gen::etags_rich();
    let mtimes = [None, Some(gen::t(gen::LM, 0)), Some(gen::t(gen::LM, 250_000_000))];
    let mut if_ranges: Vec<Vec<u8>> = ["\"v1\"", "W/\"v1\"", "\"v2\"", "\"V1\"", "\"v\"", "\"v11\"", "\"v1", "v1\"", "v1", "\"\"", "*", "W/", "\"v1\" ", " \"v1\"", "\"v1\",\"v1\""]
        .iter()
        .map(|s| s.as_bytes().to_vec())
        .collect();
    for d in [gen::LM - 1, gen::LM, gen::LM + 1] {
        if_ranges.push(fmt_imf(d).into_bytes());
        if_ranges.push(fmt_rfc850(d).into_bytes());
        if_ranges.push(fmt_asctime(d).into_bytes());
    }
    let alpha: [u8; 8] = [b'"', b'W', b'/', b'v', b'1', b' ', 0xff, b','];
    let maxlen = tier.pick(4, 6);
    let mut cur: Vec<Vec<u8>> = vec![vec![]];
    for level in 1..=maxlen {
        let mut next = Vec::new();
        for c in &cur {
            for a in alpha {
                // (the comma joins the alphabet up to length 5; length 6 stays with the other seven
                // symbols so that the thorough tier still finishes inside its wall cap)
                if level >= 6 && (a == b',' || c.contains(&b',')) {
                    continue;
                }
                let mut v = c.clone();
                v.push(a);
                next.push(v);
            }
        }
        for v in &next {
            // the http crate rejects leading/trailing SP? (it does not) -- keep all that build
            if_ranges.push(v.clone());
        }
        cur = next;
    }
    // every entity tag of the alphabet echoed exactly, and with near-miss edits
    for e in etags.iter().flatten() {
        if_ranges.push(e.clone());
        let mut x = e.clone();
        let n = x.len();
        x[n - 2] ^= 0x01;
        if http::HeaderValue::from_bytes(&x).is_ok() {
            if_ranges.push(x);
        }
        if_ranges.push(e[..n - 1].to_vec());
        // the tag followed / preceded by what a LIST parser would swallow or skip: If-Range holds
        // one validator, not a list
        for suf in [&b","[..], b", ", b" ,", b",,", b", \t", b"\t", b";", b"; ", b",\"v2\"", b", W/\"v1\"", b", *", b"x"] {
            let mut y = e.clone();
            y.extend_from_slice(suf);
            if_ranges.push(y);
        }
        for pre in [&b","[..], b", ", b"\"v2\", ", b"*, "] {
            let mut y = pre.to_vec();
            y.extend_from_slice(e);
            if_ranges.push(y);
        }
        // near misses that a "normalising" comparison would accept: a backslash inserted at every
        // position inside the quotes (quoted-pair), a backslash removed, the case changed,
        // percent-encoding of one byte
        let open = e.iter().position(|b| *b == b'"').unwrap_or(0);
        for i in open + 1..n {
            let mut y = e.clone();
            y.insert(i, b'\\');
            if_ranges.push(y);
        }
        if let Some(i) = e.iter().position(|b| *b == b'\\') {
            let mut y = e.clone();
            y.remove(i);
            if_ranges.push(y);
        }
        if e.iter().any(|b| b.is_ascii_lowercase()) {
            if_ranges.push(e.to_ascii_uppercase());
        }
        if n > open + 2 {
            let mut y = e[..open + 1].to_vec();
            y.extend_from_slice(format!("%{:02X}", e[open + 1]).as_bytes());
            y.extend_from_slice(&e[open + 2..]);
            if_ranges.push(y);
        }
    }
    if_ranges.sort();
    if_ranges.dedup();
    let mut outer = Vec::new();
    for e in &etags {
        for mt in &mtimes {
            for l in [10u64, 400] {
                for me in ["GET", "HEAD"] {
                    outer.push((e.clone(), *mt, l, me));
                }
            }
        }
    }
    run.rule = "entity etag {absent, strong, weak} x mtime {absent, whole, sub-second} x If-Range {absent, same strong, same opaque weak, different, case/prefix/suffix/unterminated variants, dates LM-1/LM/LM+1 in three formats, every byte string of length <= n over {\" W / v 1 SP 0xff ,} (the comma up to length 5), every entity tag followed / preceded by list syntax (comma, blanks, semicolon, a second tag)} x Range {one satisfiable, two (multipart zone), two (200 zone), unsatisfiable, absent} x GET/HEAD x L in {10,400}; the short and tag-like If-Range values also next to a passing If-Match ('*', the entity's tag) and a non-matching If-None-Match; oracle: 206/416 only if If-Range is absent or byte-identical to a strong entity etag (exact-date match admitted either way), and then exactly what C03 prescribes. non-trivial = distinct (entity validators, If-Range, Range, method, L) with an If-Range header".into();
    run.bounds = json!({"if_range_values": if_ranges.len(), "max_arbitrary_len": maxlen});
    let ev = Eval { prop: &run.prop.clone(), extra_polls: 1 };
    par_for(outer.len() as u64, threads(), |i, st| {
        let (e, mt, l, me) = &outer[i as usize];
        let entity = ent(*l, e.as_deref(), *mt, vec![("content-type".into(), b"text/plain".to_vec())], vec![]);
        let ranges: Vec<Option<String>> = vec![
            Some("bytes=1-3".into()),
            Some("bytes=0-0,2-3".into()),
            Some(format!("bytes=0-{},1-", l - 1)),
            Some(format!("bytes={l}-")),
            None,
        ];
        let mut order = i << 32;
        for r in &ranges {
            let base = add(&Req::new(me), "range", &r.clone().map(|s| s.into_bytes()));
            for ir in std::iter::once(None).chain(if_ranges.iter().map(Some)) {
                let req = match ir {
                    None => base.clone(),
                    Some(v) => base.clone().with("if-range", v),
                };
                // the gate must not depend on what other conditional headers say: the values that
                // matter most are repeated next to a passing If-Match and a non-matching If-None-Match
                if let Some(v) = ir {
                    if v.len() <= 8 || e.as_ref().map(|t| t == v).unwrap_or(false) || v.starts_with(b"\"") || v.starts_with(b"W/") {
                        for (hn, hv) in [("if-match", &b"*"[..]), ("if-match", e.as_deref().unwrap_or(b"*")), ("if-none-match", &b"\"zz\""[..])] {
                            let r2 = req.clone().with(hn, hv);
                            order += 1;
                            if ev.run(&r2, &entity, st, order).is_some() {
                                st.nontrivial(&(&r2, ent_key(&entity)));
                                st.count("gate_next_to_other_conditionals", 1);
                            }
                        }
                    }
                }
                order += 1;
                if let Some((obs, m)) = ev.run(&req, &entity, st, order) {
                    if ir.is_some() {
                        st.nontrivial(&(&req, ent_key(&entity)));
                    }
                    st.count(&format!("gate:{:?}", m.gate), 1);
                    st.sample(2, || json!({"request": req.to_json(), "etag": e.as_ref().map(|t| String::from_utf8_lossy(t).to_string()), "gate": format!("{:?}", m.gate), "status": obs.status}));
                }
            }
        }
    })
}

// -------------------------------------------------------------------------------------------
// C06

fn base_ranges(l: u64) -> Vec<(u64, u64)> {
    // overlapping, adjacent, duplicated, nested, reversed order arise from tuples over these
    vec![(0, 0), (0, 4), (3, 9), (10, 10), (5, 6), (l - 1, l - 1)]
}

fn multi_range_sets(l: u64, tier: Tier) -> Vec<Vec<(u64, u64)>> {
    let b = base_ranges(l);
    let mut v = Vec::new();
    for i in 0..b.len() {
        for j in 0..b.len() {
            v.push(vec![b[i], b[j]]);
        }
    }
    let step = tier.pick(5, 1);
    let mut c = 0;
    for i in 0..b.len() {
        for j in 0..b.len() {
            for k in 0..b.len() {
                c += 1;
                if c % step == 0 {
                    v.push(vec![b[i], b[j], b[k]]);
                }
            }
        }
    }
    if tier == Tier::Thorough {
        for i in 0..b.len() {
            for j in 0..b.len() {
                for k in 0..b.len() {
                    for m in 0..b.len() {
                        v.push(vec![b[i], b[j], b[k], b[m]]);
                    }
                }
            }
        }
    }
    // many parts (a stated subset: one walk per count)
    for n in [9usize, 10, 12, 15, 16, 17, 24, 33, 40] {
        v.push((0..n).map(|k| b[k % b.len()]).collect());
        v.push((0..n as u64).map(|k| (20 + 3 * k, 20 + 3 * k + (k % 3))).collect());
    }
    for n in 4..=8usize {
        for rot in 0..b.len() {
            v.push((0..n).map(|k| b[(rot + k) % b.len()]).collect());
            v.push((0..n).map(|k| b[(rot + 2 * k) % b.len()]).collect());
        }
    }
    v
}

/// (L, range set) families where the multipart length arithmetic is most likely to go wrong:
/// decimal boundaries (a start / end / L at 10^k-1 .. 10^k-3 for every k <= 19) and L within a few
/// bytes of 2^64 with ranges that leave a 150..260-byte window (exact length crosses 2^64 or not).
pub fn multipart_specials(tier: Tier) -> Vec<(u64, Vec<(u64, u64)>)> {
    let mut special: Vec<(u64, Vec<(u64, u64)>)> = Vec::new();
    for k in 3..=19u32 {
        let p = 10u64.pow(k);
        let l1 = p.saturating_add(5);
        for j in 0..3u64 {
            special.push((l1, vec![(0, 0), (p - 1 - j, p - 1)]));
            special.push((l1, vec![(p - 1 - j, p - 1 - j), (3, 4), (p - 2, p - 1)]));
        }
        for d in 1..=3u64 {
            special.push((p - d, vec![(0, 0), (5, 5)]));
            special.push((p - d, vec![(p - d - 1, p - d - 1), (1, 2)]));
        }
    }
    for l in [u64::MAX, u64::MAX - 1, u64::MAX - 40] {
        for w in (150..=260u64).step_by(tier.pick(3, 1)) {
            special.push((l, vec![(0, l - w), (l - 1, l - 1)]));
            special.push((l, vec![(l - 1, l - 1), (1, l - w)]));
            special.push((l, vec![(0, l / 2), (l / 2 + 1, l - w - 100), (l - 2, l - 1)]));
        }
    }
    special
}

pub fn run_c06(run: &mut Run) -> Stats {
    let tier = run.tier;
    let lens: Vec<u64> = tier.pick(
        vec![2000, 99_999, 100_000, 1 << 32, u64::MAX],
        vec![2000, 5000, 99_999, 100_000, 1 << 32, 10_000_000_000_000_000_000, u64::MAX - 1, u64::MAX],
    );
    let hsets = gen::header_sets();
    let mut outer = Vec::new();
    for &l in &lens {
        for (hi, _) in hsets.iter().enumerate() {
            for ifr in [false, true] {
                for (si, _) in multi_range_sets(l, tier).iter().enumerate() {
                    outer.push((l, hi, ifr, si));
                }
            }
        }
    }
    // Special (L, range set) families beyond the base product:
    //  * decimal boundaries: a range start / end / the entity length at 10^k-1, 10^k-2, 10^k-3 for
    //    every k up to 19 (digit-count arithmetic, also in floating point, goes wrong exactly there)
    //  * near-overflow: L within a few bytes of 2^64 and ranges that leave a window of 150..260
    //    bytes, where the 80-bytes-per-part estimate still says "multipart" but the exact length
    //    crosses 2^64 (=> 413) or just does not
    let special = multipart_specials(tier);
    let n_special = special.len();
    for (si, _) in special.iter().enumerate() {
        for (hi, _) in hsets.iter().enumerate().take(3) {
            for ifr in [false, true] {
                outer.push((u64::MAX, hi, ifr, usize::MAX - si));
            }
        }
    }
    run.extra.insert("special_range_sets".into(), json!(n_special));
    let (kmax, dev, max_events) = tier.pick((2, 1, 3), (3, 1, 4));
    run.rule = "GET x range sets of 2..8 satisfiable ranges (all 2-tuples and 3-tuples over 6 base ranges incl. overlapping/adjacent/duplicate/nested/reversed; 4..8-tuples as rotations and stride-2 walks of the base list, 9..40 parts as single walks: a stated subset; plus decimal-boundary sets -- a start, end or L at 10^k-1..10^k-3 for every k <= 19 -- and near-overflow sets -- L within 40 bytes of 2^64 with ranges leaving a 150..260-byte window, where the exact length does or does not cross 2^64) x L x entity header sets {none,1,2 incl. a 200-byte value,3} x If-Range {absent, matching strong} x contract-honouring chunkings per part (rotated through the parts); oracle = independent multipart parser: boundary from Content-Type, per part delimiter + Content-Range + entity headers as a multiset iff no If-Range + blank line + descriptor-exact entity bytes, closing delimiter, Content-Length == parsed length, no top-level Content-Range, one get_range per part in order. non-trivial = distinct (ranges, L, headers, If-Range, chunking) answered with multipart/byteranges".into();
    run.bounds = json!({"L": lens.iter().map(|l| l.to_string()).collect::<Vec<_>>(), "range_sets_per_L": multi_range_sets(1000, tier).len(), "kmax_chunks": kmax, "benign_deviations": dev});
    run.assumptions.push("entity streams honour the Entity contract".into());
    let ev = Eval { prop: &run.prop.clone(), extra_polls: 1 };
    par_for(outer.len() as u64, threads(), |i, st| {
        let (l, hi, ifr, si) = outer[i as usize];
        let sets_l;
        let (l, set): (u64, &Vec<(u64, u64)>) = if si > usize::MAX / 2 {
            let sp = &special[usize::MAX - si];
            (sp.0, &sp.1)
        } else {
            sets_l = multi_range_sets(l, tier);
            (l, &sets_l[si])
        };
        let h = format!("bytes={}", set.iter().map(|(a, b)| format!("{a}-{b}")).collect::<Vec<_>>().join(", "));
        let mut req = Req::new("GET").with("range", h.as_bytes());
        if ifr {
            req = req.with("if-range", b"\"v1\"");
        }
        let base = ent(l, Some(b"\"v1\""), Some(gen::t(gen::LM, 0)), hsets[hi].clone(), vec![]);
        let mut order = i << 32;
        run_with_scripts(&ev, &req, &base, (kmax, dev, max_events), st, &mut order, |req, e, obs, _m, st, _| {
            if obs.status == 206 && obs.hdr("content-range").is_none() {
                st.nontrivial(&(req, ent_key(e), &e.scripts));
                st.sample(2, || json!({"request": req.to_json(), "L": e.len.to_string(), "entity_headers": e.headers.len(), "content_length": obs.hdr("content-length").map(|c| String::from_utf8_lossy(c).to_string()), "content_type": obs.hdr("content-type").map(|c| String::from_utf8_lossy(c).to_string()), "frames": obs.body.steps.len()}));
            }
        });
    })
}

// -------------------------------------------------------------------------------------------
// C07 (and the fault half of C20)

pub fn fault_space(tier: Tier) -> Vec<(&'static str, u64, usize, usize)> {
    // (shape, range length, number of parts, faulty part)
    let mut v = Vec::new();
    // an EMPTY entity (200 with Content-Length: 0): its stream may still fail or be too long
    v.push(("full", 0, 1, 0));
    for n in [1u64, 2, 3, 5] {
        v.push(("full", n, 1, 0));
        v.push(("single", n, 1, 0));
        for parts in [2usize, 3] {
            for fp in 0..parts {
                v.push(("multi", n, parts, fp));
            }
        }
    }
    // ranges longer than one rendered piece of a virtual buffer (65536): for these chunks
    // `chunk().len() < remaining()`, i.e. the entity's Data is a non-contiguous Buf
    v.push(("full", 70_000, 1, 0));
    v.push(("single", 200_000, 1, 0));
    v.push(("multi", 70_000, 2, 1));
    if tier == Tier::Thorough {
        v.push(("full", 100, 1, 0));
        v.push(("multi", 100, 2, 1));
        v.push(("multi", 1 << 33, 3, 2));
    }
    v
}

fn fault_request(shape: &str, n: u64, parts: usize) -> (Req, u64) {
    match shape {
        "full" => (Req::new("GET"), n),
        "single" => (Req::new("GET").with("range", format!("bytes=3-{}", 3 + n - 1).as_bytes()), 1000 + n),
        _ => {
            let stride = (n + 5).max(10);
            let specs: Vec<String> = (0..parts as u64).map(|k| format!("{}-{}", stride * k + 3, stride * k + 3 + n - 1)).collect();
            (Req::new("GET").with("range", format!("bytes={}", specs.join(",")).as_bytes()), (stride * parts as u64 * 4 + 100_000).max(100_000))
        }
    }
}

pub fn run_faults(run: &mut Run, extra_polls: usize, two_faults: bool) -> Stats {
    let tier = run.tier;
    let space = fault_space(tier);
    let (kmax, dev, max_events) = tier.pick((3, 2, 5), (4, 2, 6));
    run.bounds = json!({"range_lengths": [1, 2, 3, 5], "kmax_chunks": kmax, "benign_deviations_before_fault": dev, "max_events": max_events, "extra_polls": extra_polls, "two_faults": two_faults});
    let ev = Eval { prop: &run.prop.clone(), extra_polls };
    par_for(space.len() as u64, threads(), |i, st| {
        let (shape, n, parts, fp) = space[i as usize];
        let (req, l) = fault_request(shape, n, parts);
        let faults = gen::fault_scripts(n, kmax, dev, max_events);
        let benign = gen::honour_scripts(n, 2, 0, 2);
        let mut order = i << 32;
        for (kind, fs) in &faults {
            for (bi, b) in benign.iter().enumerate() {
                if parts == 1 && bi > 0 {
                    break;
                }
                let mut scripts: Vec<Script> = (0..parts).map(|_| b.clone()).collect();
                scripts[fp] = fs.clone();
                let e = ent(l, Some(b"\"v1\""), None, vec![("content-type".into(), b"text/plain".to_vec())], scripts);
                order += 1;
                if let Some((obs, _m)) = ev.run(&req, &e, st, order) {
                    st.nontrivial(&(shape, n, parts, fp, &e.scripts));
                    let term = obs.body.first_terminal().map(|t| obs.body.steps[t].1.kind()).unwrap_or("none");
                    st.count(&format!("cell:{shape}:{kind:?}:{term}"), 1);
                    st.sample(2, || json!({"shape": shape, "range_len": n, "parts": parts, "faulty_part": fp, "fault": format!("{kind:?}"), "script": fs.to_json(), "terminal": term, "polls": obs.body.steps.len()}));
                }
            }
            if two_faults && parts >= 2 {
                // a second fault in a later part (must never be reached)
                for (_, fs2) in faults.iter().step_by(17) {
                    let mut scripts: Vec<Script> = (0..parts).map(|_| benign[0].clone()).collect();
                    scripts[fp] = fs.clone();
                    let other = (fp + 1) % parts;
                    scripts[other] = fs2.clone();
                    let e = ent(l, Some(b"\"v1\""), None, vec![], scripts);
                    order += 1;
                    if ev.run(&req, &e, st, order).is_some() {
                        st.nontrivial(&(shape, n, parts, fp, &e.scripts));
                    }
                }
            }
        }
    })
}

pub fn run_c07(run: &mut Run) -> Stats {
    run.rule = "response shapes {200 full, single 206, multipart with 2 and 3 parts, fault in each part} x range lengths {1,2,5} x every entity-stream script of <= max_events events with exactly one fault {early end at every byte offset and chunking, Err at every chunk index (also after the complete range), last chunk one byte too long, one extra 1-byte chunk, endless stream} preceded by <= dev empty-chunk/Pending deviations (thorough: also a second fault in another part); oracle: short/failing => first terminal event is Err, never a clean end, delivered bytes a correct prefix (multipart: parsed prefix, no closing delimiter); long => never more than announced, poll past the end yields Err. non-trivial = distinct (shape, length, faulty part, script vector)".into();
    let two = run.tier == Tier::Thorough;
    run_faults(run, 2, two)
}

// -------------------------------------------------------------------------------------------
// C13

pub fn run_c13(run: &mut Run) -> Stats {
    let tier = run.tier;
    // symbols, not bytes: U+00E9 and U+20AC are well-formed multi-byte UTF-8 characters
    let alpha: [&[u8]; 16] = [b"0", b"1", b"9", b"-", b",", b" ", b"\t", b"=", b"\"", b"W", b"/", b"*", b"+", b"\xff", b"\xc3\xa9", b"\xe2\x82\xac"];
    let na = alpha.len() as u64;
    let maxlen = tier.pick(4, 6);
    let prefixes: [&[u8]; 4] = [b"", b"bytes=", b"W/\"", b"\""];
    let hdrs = ["range", "if-range", "if-match", "if-none-match", "if-modified-since", "if-unmodified-since"];
    let methods = ["GET", "HEAD", "POST", "PUT", "DELETE", "OPTIONS", "PATCH", "TRACE", "CONNECT", "FOO", "get"];
    let lens: [u64; 6] = [0, 1, 10, 1 << 32, 1 << 63, u64::MAX];
    // number of strings of length <= maxlen
    let mut nstr: u64 = 0;
    for k in 0..=maxlen {
        nstr += na.pow(k as u32);
    }
    let decode = |mut x: u64| -> Vec<u8> {
        let mut k = 0;
        let mut block = 1u64;
        while x >= block {
            x -= block;
            k += 1;
            block = na.pow(k as u32);
        }
        let mut v = Vec::with_capacity(k);
        for _ in 0..k {
            v.extend_from_slice(alpha[(x % na) as usize]);
            x /= na;
        }
        v
    };
    let big = ["4294967296", "9223372036854775808", "18446744073709551615", "18446744073709551616", "1000000000000000000000000000000"];
    let mut specials: Vec<(usize, Vec<u8>)> = Vec::new();
    for b in big {
        for c in big {
            specials.push((0, format!("bytes={b}-{c}").into_bytes()));
        }
        specials.push((0, format!("bytes={b}-").into_bytes()));
        specials.push((0, format!("bytes=-{b}").into_bytes()));
        specials.push((0, format!("bytes=0-0,{b}-").into_bytes()));
        specials.push((0, format!("bytes=-{b},0-{b}").into_bytes()));
        specials.push((0, format!("bytes=0-{b},0-{b},0-{b}").into_bytes()));
    }
    for w in (150..=260u64).step_by(2) {
        let l = u64::MAX;
        specials.push((0, format!("bytes=0-{},{}-{}", l - w, l - 1, l - 1).into_bytes()));
        specials.push((0, format!("bytes=0-{},{}-{},5-5", l - w - 100, l - 2, l - 1).into_bytes()));
        specials.push((0, format!("bytes=0-{},{}-", (1u64 << 63) - w, (1u64 << 63) - 1).into_bytes()));
    }
    for n in [17u64, 64, 65, 100, 257, 1000] {
        specials.push((0, format!("bytes={}", (0..n).map(|k| format!("{}-{}", 3 * k, 3 * k + 1)).collect::<Vec<_>>().join(",")).into_bytes()));
        specials.push((0, format!("bytes={}", (0..n).map(|k| format!("{k}-")).collect::<Vec<_>>().join(", ")).into_bytes()));
        specials.push((0, format!("bytes={}", vec!["-1"; n as usize].join(",")).into_bytes()));
    }
    // positions just below and at powers of ten (decimal width changes) in two-part requests
    for k in [3u32, 9, 15, 16, 17, 18, 19] {
        let p = 10u64.pow(k);
        for d in [1u64, 2] {
            specials.push((0, format!("bytes=0-0,{}-{}", p - d, p - d).into_bytes()));
            specials.push((0, format!("bytes={}-{},5-5", p - d - 1, p - d).into_bytes()));
            specials.push((0, format!("bytes=0-{},7-7", p - d).into_bytes()));
        }
    }
    for g in ["bytes=0-1 ,2-3", "bytes= 0-1", "bytes=,0-1", "bytes=0-1,", "Bytes=0-1", "bytes=0-1,,2-3", "bytes=\u{7f}"] {
        if http::HeaderValue::from_bytes(g.as_bytes()).is_ok() {
            specials.push((0, g.as_bytes().to_vec()));
        }
    }
    // strings x prefixes x headers are the outer items; lens x etag/mtime x methods inside
    let n_outer = nstr * prefixes.len() as u64 * hdrs.len() as u64;
    run.rule = format!("(a) methods {{GET,HEAD,POST,PUT,DELETE,OPTIONS,PATCH,TRACE,CONNECT,FOO,get}}; (b) for each of the six request headers every string of <= {maxlen} symbols over the parsers' branch characters {{0 1 9 - , SP HTAB = \" W / * + 0xFF U+00E9 U+20AC (UTF-8)}} appended to the prefixes {{'', 'bytes=', 'W/\"', '\"'}} (strings the http crate refuses as header values are skipped and counted), boundary numbers 2^32..10^30 in every numeric slot of 1- and 2-spec ranges, grey-zone list syntax; (c) the same header line twice; (d) pairs of headers from the length <= 2 sets; x entity length {{0,1,10,2^32,2^63,2^64-1}} x etag/mtime presence. Oracle: no panic in serve() or while draining (+3 polls), status in the documented set, non-GET/HEAD => 405 + Allow naming GET and HEAD + no get_range. non-trivial = distinct (header name, value, L, validators present)");
    run.bounds = json!({"max_len_in_symbols": maxlen, "alphabet_symbols": na, "strings": nstr, "prefixes": 4, "headers": 6, "entity_lens": lens.iter().map(|l| l.to_string()).collect::<Vec<_>>()});
    run.exhaustive = true;
    let ev = Eval { prop: &run.prop.clone(), extra_polls: 3 };
    let mut ents: Vec<EntSpec> = lens
        .iter()
        .flat_map(|&l| {
            [
                ent(l, None, None, vec![], vec![]),
                ent(l, Some(b"\"v1\""), Some(gen::t(gen::LM, 5)), vec![("content-type".into(), b"x/y".to_vec())], vec![]),
            ]
        })
        .collect();
    // modification times at the edges of what an HTTP-date / SystemTime can express
    let edge_mtimes = [
        std::time::UNIX_EPOCH,
        std::time::UNIX_EPOCH - std::time::Duration::from_nanos(1),
        std::time::UNIX_EPOCH - std::time::Duration::from_secs(1),
        std::time::UNIX_EPOCH - std::time::Duration::from_secs(2_208_988_800), // 1900
        gen::t(253_402_300_799, 999_999_999),                                  // 9999-12-31 23:59:59
        gen::t(253_402_300_800, 0),                                            // year 10000
        gen::future(),
    ];
    let n_regular = ents.len();
    for mt in edge_mtimes {
        ents.push(ent(10, Some(b"\"v1\""), Some(mt), vec![], vec![]));
    }
    let mut total = par_for(n_outer, threads(), |i, st| {
        let hi = (i % hdrs.len() as u64) as usize;
        let pi = ((i / hdrs.len() as u64) % prefixes.len() as u64) as usize;
        let si = i / (hdrs.len() as u64 * prefixes.len() as u64);
        let mut v = prefixes[pi].to_vec();
        v.extend(decode(si));
        if http::HeaderValue::from_bytes(&v).is_err() {
            st.count("values_refused_by_http_crate", 1);
            return;
        }
        let req = Req::new("GET").with(hdrs[hi], &v);
        for (k, e) in ents.iter().enumerate() {
            // thin: long strings only against 3 of the 12 regular entities; the edge-mtime
            // entities only with the shortest strings
            if v.len() > prefixes[pi].len() + 2 && !(k == 5 || k == 1 || k == 11) {
                continue;
            }
            if k >= n_regular && v.len() > prefixes[pi].len() + 1 {
                continue;
            }
            if ev.run(&req, e, st, (i << 8) | k as u64).is_some() {
                st.nontrivial(&(hi, &v, k));
            }
        }
        st.sample(1, || json!({"header": hdrs[hi], "value": crate::report::bytes_json(&v)}));
    });
    // specials, methods, repeats, pairs: small, single-threaded
    let mut st = Stats::new();
    let mut order = 1u64 << 60;
    for (_, v) in &specials {
        for e in &ents {
            for me in ["GET", "HEAD"] {
                order += 1;
                let req = Req::new(me).with("range", v);
                if ev.run(&req, e, &mut st, order).is_some() {
                    st.nontrivial(&(&req, e.len));
                }
            }
        }
    }
    for me in methods {
        for e in &ents {
            for h in [None, Some(("range", "bytes=0-0")), Some(("if-none-match", "*")), Some(("if-match", "\"zz\""))] {
                order += 1;
                let mut req = Req::new(me);
                if let Some((k, v)) = h {
                    req = req.with(k, v.as_bytes());
                }
                if ev.run(&req, e, &mut st, order).is_some() {
                    st.nontrivial(&(&req, e.len));
                }
            }
        }
    }
    // (c) repeated lines, (d) pairs, over short strings
    let mut shorts: Vec<Vec<u8>> = Vec::new();
    for p in prefixes {
        for si in 0..(1 + 14 + 196) {
            let mut v = p.to_vec();
            v.extend(decode(si));
            if http::HeaderValue::from_bytes(&v).is_ok() {
                shorts.push(v);
            }
        }
    }
    let thin: Vec<&Vec<u8>> = shorts.iter().step_by(tier.pick(13, 3)).collect();
    for (hi, h) in hdrs.iter().enumerate() {
        for a in &thin {
            for b in thin.iter().step_by(5) {
                for e in [&ents[5], &ents[2]] {
                    order += 1;
                    let req = Req::new("GET").with(h, a).with(h, b);
                    if ev.run(&req, e, &mut st, order).is_some() {
                        st.nontrivial(&(&req, e.len));
                    }
                    let h2 = hdrs[(hi + 1) % hdrs.len()];
                    let req = Req::new("GET").with(h, a).with(h2, b);
                    order += 1;
                    if ev.run(&req, e, &mut st, order).is_some() {
                        st.nontrivial(&(&req, e.len));
                    }
                }
            }
        }
    }
    total.merge(st);
    total
}

// -------------------------------------------------------------------------------------------
// C14

pub fn run_c14(run: &mut Run) -> Stats {
    let etags: Vec<Option<Vec<u8>>> = gen::etags_rich();
    let hsets = gen::header_sets();
    // mtime index 6 = one day in the future (computed per execution)
    let past: Vec<Option<std::time::SystemTime>> = vec![None, Some(gen::t(0, 0)), Some(gen::t(gen::LM, 0)), Some(gen::t(gen::LM, 1_000_000)), Some(gen::t(gen::LM, 1)), Some(gen::t(gen::LM, 999_999_999))];
    let firsts: Vec<(&str, Vec<(&str, &str)>)> = vec![
        ("plain", vec![]),
        ("range", vec![("range", "bytes=1-3")]),
        ("inm-miss", vec![("if-none-match", "\"zz\"")]),
        ("unsat", vec![("range", "bytes=99999-")]),
        ("if-match-fail", vec![("if-match", "\"zz\"")]),
        ("inm-hit", vec![("if-none-match", "*")]),
        ("multi", vec![("range", "bytes=0-0,5-6")]),
    ];
    let mut outer = Vec::new();
    for e in 0..etags.len() {
        for mt in 0..=past.len() {
            for h in 0..hsets.len() {
                for fi in 0..firsts.len() {
                    outer.push((e, mt, h, fi));
                }
            }
        }
    }
    run.rule = "all two-request histories: request 1 in {GET, GET+satisfiable Range, GET+If-None-Match miss, unsatisfiable Range (416), failing If-Match (412), If-None-Match hit (304), multi-range}; request 2 = GET/HEAD echoing every subset of {If-None-Match: <served ETag>, If-Modified-Since: <served Last-Modified>, If-Match: <served ETag>, If-Unmodified-Since: <served Last-Modified>, If-Range: <served ETag> + Range} (32 subsets), built from the bytes actually served; x etag {absent, strong, weak; tags containing comma, semicolon, '*', 'W/', backslash, obs-text, the empty tag, a 300-byte tag} x mtime {absent, epoch, whole second, +1ms, +1ns, +999999999ns, now+1day} x entity header sets {none, 1, 2, 3, Latin-1 values, repeated field names}. Oracle step 1: Accept-Ranges, ETag byte-equal, Date/Last-Modified parseable with LM <= Date and LM == floor(mtime) for past mtimes, entity headers present on 200/206-without-If-Range and absent on 304/412/416. Step 2: outcome derived from the echoed subset alone. Controlled clock (clock_gettime interposed): clock T at the first request with nanoseconds in {0, 1, 5e8, 999999999} x modification time at T - 1 day, T - 1 s - 1 ns, T - 1 s, the last ns of the previous second, the start of this second, T - 1 ns, T, T + 1 ns, the last ns of this second, the next second, T + 1 s, T + 1 day x clock of the echoing request in {T, T + 1 ns, the next second, T + 1 s, T + 2 days} x echo of the served Last-Modified in If-Modified-Since / If-Unmodified-Since x etag {strong, absent}; a modification time that is not after T must be served truncated to its second. Supplement (time sampling, not exhaustive): four requests every 2 ms for 2.9 s on one thread (entities modified tomorrow / at the instant of the request / 1.2 s after the start of the loop / long ago), single-response oracle, and an immediate echo of the served Last-Modified for the second and fourth. non-trivial = distinct (entity, first request, echoed subset, method)".into();
    run.bounds = json!({"etag": etags.len(), "mtime": 7, "header_sets": hsets.len(), "first_requests": firsts.len(), "echo_subsets": 32});
    run.assumptions.push("SystemTime::now() is not controlled: past mtimes are decades old, the future one is a day ahead, so no verdict depends on when the two calls happen".into());
    let ev = Eval { prop: &run.prop.clone(), extra_polls: 1 };
    let mut total = par_for(outer.len() as u64, threads(), |i, st| {
        let (ei, mi, hi, fi) = outer[i as usize];
        let is_future = mi == past.len();
        let mt = if is_future { Some(gen::future()) } else { past[mi] };
        let entity = ent(1000, etags[ei].as_deref(), mt, hsets[hi].clone(), vec![]);
        let mut r1 = Req::new("GET");
        for (k, v) in &firsts[fi].1 {
            r1 = r1.with(k, v.as_bytes());
        }
        let mut order = i << 32;
        order += 1;
        let Some((o1, _)) = ev.run(&r1, &entity, st, order) else { return };
        if o1.panic.is_some() {
            return;
        }
        let served_etag = o1.hdr("etag").map(|v| v.to_vec());
        let served_lm = o1.hdr("last-modified").map(|v| v.to_vec());
        for subset in 0u32..32 {
            // which Range accompanies an echoed If-Range: a single range, two ranges in the
            // multipart zone, two ranges that must fall back to the complete 200
            for (rv, range_hdr) in [(0usize, "bytes=2-5"), (1, "bytes=0-0,5-6"), (2, "bytes=0-998,1-")] {
            if rv > 0 && subset & 16 == 0 {
                continue;
            }
            for me in ["GET", "HEAD"] {
                let mut r2 = Req::new(me);
                let (inm, ims, im, ius, ifr) = (subset & 1 != 0, subset & 2 != 0, subset & 4 != 0, subset & 8 != 0, subset & 16 != 0);
                if (inm || im || ifr) && served_etag.is_none() {
                    continue;
                }
                if (ims || ius) && served_lm.is_none() {
                    continue;
                }
                // A future modification time is served as Last-Modified = Date = now (clamped).
                // Echoing that value back compares it with the *unclamped* future time: these
                // violations are tagged so that the known-findings file can name them precisely.
                let future_date_echo = is_future && (ims || ius);
                if inm {
                    r2 = r2.with("if-none-match", served_etag.as_ref().unwrap());
                }
                if ims {
                    r2 = r2.with("if-modified-since", served_lm.as_ref().unwrap());
                }
                if im {
                    r2 = r2.with("if-match", served_etag.as_ref().unwrap());
                }
                if ius {
                    r2 = r2.with("if-unmodified-since", served_lm.as_ref().unwrap());
                }
                if ifr {
                    r2 = r2.with("if-range", served_etag.as_ref().unwrap()).with("range", range_hdr.as_bytes());
                }
                order += 1;
                let Some(o2) = run_serve(&r2, &entity, 1, HORIZON) else { continue };
                st.evaluations += 1;
                st.nontrivial(&(ei, mi, hi, fi, subset, me, rv));
                let h = st.state(&("c14-second", o1.status, subset, o2.status));
                let h0 = st.state(&("c14-first", o1.status));
                st.transition(h0, subset as u64, h);
                st.outcome(format!("{}->{}", o1.status, o2.status));
                // ---- step-2 oracle, from the echoed subset alone -----------------------------
                let strong = served_etag.as_ref().map(|t| !t.starts_with(b"W/")).unwrap_or(false);
                let mut fs: Vec<Finding> = Vec::new();
                let mut fail = |key: &str, msg: String| {
                    fs.push(Finding { props: vec!["C14"], key: key.into(), msg });
                };
                if o2.panic.is_some() {
                    fail("echo-panic", format!("second request panicked: {:?}", o2.panic));
                } else {
                    // Outcome by the statement alone. Nothing is claimed when a *weak* served
                    // ETag is echoed in If-Match (the statement covers a served strong ETag).
                    let weak_im = im && !strong;
                    if !weak_im {
                        let expected: u16 = if inm || ims { 304 } else if ifr && strong && rv < 2 { 206 } else { 200 };
                        if o2.status == 412 {
                            fail("echo-412", format!("echoing served validators (subset inm={inm} ims={ims} im={im} ius={ius} ifr={ifr}) gave 412"));
                        } else if expected == 304 && o2.status != 304 {
                            fail("echo-not-304", format!("echoing {} gave {} instead of 304 (subset inm={inm} ims={ims} im={im} ius={ius} ifr={ifr})", if inm { "If-None-Match: <served ETag>" } else { "If-Modified-Since: <served Last-Modified>" }, o2.status));
                        } else if expected == 206 && (o2.status != 206 || (rv == 0 && o2.hdr("content-range") != Some(b"bytes 2-5/1000")) || (rv == 1 && o2.hdr("content-range").is_some())) {
                            fail("echo-if-range", format!("If-Range: <served strong ETag> + Range gave {} {:?}", o2.status, o2.hdr("content-range").map(String::from_utf8_lossy)));
                        } else if expected == 200 && o2.status != 200 {
                            fail("echo-status", format!("subset inm={inm} ims={ims} im={im} ius={ius} ifr={ifr} gave {}", o2.status));
                        }
                    }
                    check_validators(&r2, &entity, &o2, &mut fs);
                }
                if future_date_echo {
                    for f in fs.iter_mut() {
                        if f.key.starts_with("echo-") {
                            f.key = format!("{}:future-mtime", f.key);
                        }
                    }
                }
                ev.report(&r2, &entity, &o2, fs, st, order);
                st.sample(2, || json!({"first": r1.to_json(), "first_status": o1.status, "range_variant": rv, "served_etag": served_etag.as_ref().map(|t| String::from_utf8_lossy(t).to_string()), "served_last_modified": served_lm.as_ref().map(|t| String::from_utf8_lossy(t).to_string()), "second": r2.to_json(), "second_status": o2.status}));
            }
            }
        }
    });
    // Controlled clock: the checker executable defines `clock_gettime` itself (sysched.rs), so the
    // wall clock of this thread is an input like any other. Every relation between the clock T at
    // the first request, the modification time (T - 1 day .. T + 1 day, on either side of T and of
    // the second boundaries by 1 ns) and the clock T2 of the echoing request (T, T + 1 ns, the next
    // second, T + 1 s, T + 2 days) is enumerated -- what the time sampling below can only hope to hit.
    let mut cs = Stats::new();
    {
        let st = &mut cs;
        let evr = &ev;
        on_fresh_thread(move || {
            use crate::sysched::{clock_reads, set_clock};
            let base: i64 = 1_700_000_000;
            let ns = 1_000_000_000i128;
            let mut k = 0u64;
            for tn in [0i64, 1, 500_000_000, 999_999_999] {
                let t_ns: i128 = base as i128 * ns + tn as i128;
                let to_next = ns - tn as i128;
                let mut offs: Vec<i128> = vec![-86_400 * ns, -ns - 1, -ns, -(tn as i128) - 1, -(tn as i128), -1, 0, 1, to_next - 1, to_next, ns, 86_400 * ns];
                offs.sort();
                offs.dedup();
                let mut t2s: Vec<i128> = vec![0, 1, to_next, ns, 2 * 86_400 * ns];
                t2s.sort();
                t2s.dedup();
                for off in offs {
                    let mt_ns = t_ns + off;
                    let mt = std::time::UNIX_EPOCH + std::time::Duration::new((mt_ns / ns) as u64, (mt_ns % ns) as u32);
                    let future_at_first = off > 0;
                    for etag in [Some(&b"\"v1\""[..]), None] {
                        let e = ent(1000, etag, Some(mt), vec![], vec![]);
                        set_clock(Some((base, tn)));
                        let reads0 = clock_reads();
                        k += 1;
                        let r1 = evr.run(&Req::new("GET"), &e, st, (1 << 61) + k);
                        if clock_reads() == reads0 {
                            eprintln!("MACHINERY ERROR: the controlled clock was not read during serve(): clock_gettime is not interposed");
                            std::process::exit(2);
                        }
                        let Some((o1, _)) = r1 else {
                            set_clock(None);
                            continue;
                        };
                        st.count("controlled_clock_first_requests", 1);
                        let lm = o1.hdr("last-modified").and_then(crate::oracle::date::parse_imf);
                        let mut fs1: Vec<Finding> = Vec::new();
                        if !future_at_first && o1.panic.is_none() && lm != Some((mt_ns / ns) as u64) {
                            fs1.push(Finding { props: vec!["C14"], key: "lm-not-truncated-mtime:controlled-clock".into(), msg: format!("clock {base}.{tn:09}, modification time {} ns {} it (not in the future): Last-Modified {:?}, the modification time truncated to the second is {}", off.abs(), if off < 0 { "before" } else { "after / at" }, o1.hdr("last-modified").map(String::from_utf8_lossy), mt_ns / ns) });
                        }
                        if !fs1.is_empty() {
                            k += 1;
                            evr.report(&Req::new("GET"), &e, &o1, fs1, st, (1 << 61) + k);
                        }
                        let Some(served) = o1.hdr("last-modified").map(|v| v.to_vec()) else {
                            set_clock(None);
                            continue;
                        };
                        for &d2 in &t2s {
                            let c2 = t_ns + d2;
                            set_clock(Some(((c2 / ns) as i64, (c2 % ns) as i64)));
                            for (hdr, want_304) in [("if-modified-since", true), ("if-unmodified-since", false)] {
                                let r2 = Req::new("GET").with(hdr, &served);
                                k += 1;
                                let Some(o2) = run_serve(&r2, &e, 1, HORIZON) else { continue };
                                st.evaluations += 1;
                                st.nontrivial(&("clock", tn, off, d2, hdr, etag.is_some()));
                                let s0 = st.state(&("clock-first", off.signum(), (off.abs() >= ns), d2 >= ns));
                                let s1 = st.state(&("clock-second", hdr, o2.status));
                                st.transition(s0, want_304 as u64, s1);
                                st.outcome(format!("controlled-clock/{}/{}", if future_at_first { "future-mtime" } else { "past-mtime" }, o2.status));
                                let mut fs: Vec<Finding> = Vec::new();
                                let suffix = if future_at_first { ":future-mtime" } else { "" };
                                let ctx = format!("clock {base}.{tn:09} at the first request, modification time {off} ns from it, clock advanced by {d2} ns before the echo");
                                if o2.panic.is_some() {
                                    fs.push(Finding { props: vec!["C14"], key: "echo-panic".into(), msg: format!("{ctx}: second request panicked: {:?}", o2.panic) });
                                } else if want_304 && o2.status != 304 {
                                    fs.push(Finding { props: vec!["C14"], key: format!("echo-not-304{suffix}"), msg: format!("{ctx}: echoing the served Last-Modified {:?} in If-Modified-Since gave {} instead of 304", String::from_utf8_lossy(&served), o2.status) });
                                } else if !want_304 && o2.status == 412 {
                                    fs.push(Finding { props: vec!["C14"], key: format!("echo-412{suffix}"), msg: format!("{ctx}: echoing the served Last-Modified {:?} in If-Unmodified-Since gave 412", String::from_utf8_lossy(&served)) });
                                }
                                check_validators(&r2, &e, &o2, &mut fs);
                                evr.report(&r2, &e, &o2, fs, st, (1 << 61) + k);
                            }
                        }
                        set_clock(None);
                    }
                }
            }
        });
    }
    run.extra.insert("controlled_clock_histories".into(), json!(cs.evaluations));
    total.merge(cs);
    // Time sampling (NOT exhaustive -- the wall clock is the one input the harness does not own):
    // the same three requests every 2 ms for 2.3 s on one fresh thread, so that every phase of a
    // wall-clock second and at least two second boundaries are crossed by consecutive requests.
    // Entities: modified one day in the future, "just now" (the instant of the request), and long
    // ago. Judged by the single-response oracle (Last-Modified <= Date, ...).
    let mut ts = Stats::new();
    {
        let st = &mut ts;
        let evr = &ev;
        on_fresh_thread(move || {
            let t0 = std::time::Instant::now();
            let mut k = 0u64;
            // a modification time 1.2 s after the start of the loop: in the future at first, in
            // the past (by more than a second) at the end
            let soon = std::time::SystemTime::now() + std::time::Duration::from_millis(1200);
            while t0.elapsed() < std::time::Duration::from_millis(2900) {
                for which in 0..4 {
                    let mt = match which {
                        0 => gen::future(),
                        1 => std::time::SystemTime::now(),
                        2 => soon,
                        _ => gen::t(gen::LM, 250_000_000),
                    };
                    let e = ent(1000, Some(b"\"v1\""), Some(mt), vec![], vec![]);
                    k += 1;
                    if let Some((o1, _)) = evr.run(&Req::new("GET"), &e, st, (1 << 62) + k) {
                        st.count("time_sampled_requests", 1);
                        // echo of the served Last-Modified, at once (same clock second most of the
                        // time): for an entity that is not modified in the future this must be 304
                        if which == 1 || which == 3 {
                            if let Some(lm) = o1.hdr("last-modified") {
                                let r2 = Req::new("GET").with("if-modified-since", lm);
                                k += 1;
                                if let Some(o2) = run_serve(&r2, &e, 1, HORIZON) {
                                    st.evaluations += 1;
                                    st.count("time_sampled_echoes", 1);
                                    if o2.status != 304 {
                                        let mut fs = vec![Finding { props: vec!["C14"], key: "echo-not-304:recent-mtime".into(), msg: format!("entity modified {} ; echoing the served Last-Modified {:?} in If-Modified-Since at once gave {} instead of 304", if which == 1 { "at the instant of the first request" } else { "in 1994" }, String::from_utf8_lossy(lm), o2.status) }];
                                        check_validators(&r2, &e, &o2, &mut fs);
                                        evr.report(&r2, &e, &o2, fs, st, (1 << 62) + k);
                                    }
                                }
                            }
                        }
                    }
                }
                std::thread::sleep(std::time::Duration::from_millis(2));
            }
        });
    }
    // ... and ONE entity only, modified 1.2 s after the start, every 5 ms for 2.9 s (a cache keyed by
    // the entity's own modification time is never evicted by another entity here)
    {
        let st = &mut ts;
        let evr = &ev;
        on_fresh_thread(move || {
            let t0 = std::time::Instant::now();
            let soon = std::time::SystemTime::now() + std::time::Duration::from_millis(1200);
            let e = ent(1000, Some(b"\"v1\""), Some(soon), vec![], vec![]);
            let mut k = 0u64;
            while t0.elapsed() < std::time::Duration::from_millis(2900) {
                k += 1;
                if evr.run(&Req::new("GET"), &e, st, (1 << 62) + (1 << 40) + k).is_some() {
                    st.count("time_sampled_requests_one_entity", 1);
                }
                std::thread::sleep(std::time::Duration::from_millis(5));
            }
        });
    }
    run.extra.insert("time_sampled_requests_not_exhaustive".into(), json!(ts.evaluations));
    total.merge(ts);
    total
}

// -------------------------------------------------------------------------------------------
// C15: every request of the C01..C06 spaces, GET vs HEAD

pub fn run_c15_serve(run: &mut Run) -> Stats {
    let tier = run.tier;
    run.rule = "every request of the C01 space (methods replaced by GET/HEAD pairs), 1- and 2-spec range sets over boundary positions for L in {1,10,400,100000,2^64-1} and the C06 multipart range sets (with and without If-Range) is executed twice against the same entity, GET and HEAD; plus every C17 streaming_body configuration with HEAD. Oracle: same status; identical header multiset except Date/Last-Modified (equal within 2 s); for 2xx/3xx/416 the HEAD body is empty (is_end_stream at once, exact hint 0, first poll None); zero get_range calls for HEAD; streaming_body: same headers, no writer. non-trivial = distinct (request, entity) pairs".into();
    let sp = C01Space::new(tier);
    let mut outer = sp.outer();
    outer.retain(|it| it.3 == "GET");
    let pair = |req: &Req, e: &EntSpec, st: &mut Stats, order: u64, prop: &str| {
        let mut head = req.clone();
        head.method = "HEAD".into();
        let (Some(g), Some(h)) = (run_serve(req, e, 1, HORIZON), run_serve(&head, e, 1, HORIZON)) else { return };
        st.evaluations += 2;
        let mut fs = Vec::new();
        check_head_mirror(&g, &h, &mut fs);
        let s0 = st.state(&("get", g.status, g.hdr("content-range").is_some(), g.hdr("content-type").map(|c| c.len())));
        let s1 = st.state(&("head", h.status, h.body.steps.first().map(|(s, o)| (s.is_end, o.kind()))));
        st.transition(s0, 0, s1);
        st.outcome(format!("{}/{}", g.status, h.status));
        st.nontrivial(&(req, ent_key(e)));
        st.sample(2, || json!({"request": req.to_json(), "L": e.len.to_string(), "get_status": g.status, "head_status": h.status, "head_headers": h.headers.iter().map(|(k, v)| format!("{k}: {}", String::from_utf8_lossy(v))).collect::<Vec<_>>()}));
        let ev = Eval { prop, extra_polls: 1 };
        ev.report(&head, e, &h, fs, st, order);
    };
    let prop = run.prop.clone();
    let mut total = par_for(outer.len() as u64, threads(), |i, st| {
        let item = &outer[i as usize];
        let mut order = i << 32;
        sp.requests(item, |req| {
            order += 1;
            let e = ent(item.0, item.1.as_deref(), item.2, vec![("content-type".into(), b"text/plain".to_vec())], vec![]);
            pair(&req, &e, st, order, &prop);
        });
    });
    // C03-style range sets and C06-style multipart sets
    let mut extra: Vec<(Req, EntSpec)> = Vec::new();
    for l in [1u64, 10, 400, 100_000, u64::MAX] {
        let pos = boundary_positions(l);
        let specs = spec_strings(&pos);
        let mut v = Vec::new();
        join_sets(&specs, 1, &[","], &mut v);
        let thin: Vec<String> = specs.iter().step_by(5).cloned().collect();
        join_sets(&thin, 2, &[", "], &mut v);
        for h in v {
            extra.push((Req::new("GET").with("range", h.as_bytes()), ent(l, Some(b"\"v1\""), Some(gen::t(gen::LM, 7)), gen::header_sets()[2].clone(), vec![])));
        }
    }
    for l in [2000u64, 100_000, u64::MAX] {
        for set in multi_range_sets(l, tier) {
            let h = format!("bytes={}", set.iter().map(|(a, b)| format!("{a}-{b}")).collect::<Vec<_>>().join(","));
            for ifr in [false, true] {
                let mut r = Req::new("GET").with("range", h.as_bytes());
                if ifr {
                    r = r.with("if-range", b"\"v1\"");
                }
                // every entity header set (repeated names, long / Latin-1 / padded values) for
                // L = 2000, the plain one elsewhere
                let sets = gen::header_sets();
                let n = if l == 2000 { sets.len() } else { 2 };
                for hs in sets.into_iter().take(n).skip(1) {
                    extra.push((r.clone(), ent(l, Some(b"\"v1\""), None, hs, vec![])));
                }
            }
        }
    }
    // entities whose add_headers looks at the map it is given, or replaces entries in it
    for mode in [1u8, 2] {
        for l in [400u64, 100_000] {
            for r in [None, Some("bytes=1-3"), Some("bytes=0-0,5-6"), Some("bytes=0-398,1-"), Some("lines=1-2")] {
                for ifr in [None, Some(&b"\"v1\""[..]), Some(&b"\"zz\""[..])] {
                    let mut req = Req::new("GET");
                    if let Some(r) = r {
                        req = req.with("range", r.as_bytes());
                    }
                    if let Some(v) = ifr {
                        req = req.with("if-range", v);
                    }
                    let hdrs: Vec<(String, Vec<u8>)> = if mode == 2 { vec![("accept-ranges".into(), b"bytes".to_vec()), ("content-type".into(), b"text/plain".to_vec())] } else { gen::header_sets()[3].clone() };
                    let mut e = ent(l, Some(b"\"v1\""), Some(gen::t(gen::LM, 0)), hdrs, vec![]);
                    e.hdr_mode = mode;
                    extra.push((req, e));
                }
            }
        }
    }
    let st2 = par_for(extra.len() as u64, threads(), |i, st| {
        let (r, e) = &extra[i as usize];
        pair(r, e, st, (1 << 60) + i, &prop);
    });
    total.merge(st2);
    let mut r3 = Run::new(&run.prop, "neg_mc", tier);
    let s3 = crate::neg_mc::run_c17(&mut r3);
    run.extra.insert("streaming_body_head_configs".into(), json!(s3.evaluations));
    total.merge(s3);
    total
}

// -------------------------------------------------------------------------------------------
// Histories of requests: serve() must be a function of its inputs

/// Every ordered pair (A, B) over a set of requests that reaches every response class (200,
/// single 206, multipart with and without entity headers, the 413 of a multipart whose length
/// overflows, 304, 412, 416, 405, 400, HEAD), executed as "A, then B" on a fresh OS thread; B's
/// response is judged by the ordinary oracle of `prop`. A response that is right from the
/// initial state and wrong after another request (a scratch buffer, cache or lazily built table
/// that survives a call) shows up here with the two-request history as its replay.
pub fn run_pairs(prop: &str) -> Stats {
    let hs = gen::header_sets();
    let mut reps: Vec<(Req, EntSpec)> = Vec::new();
    for (l, hset) in [(400u64, 1usize), (400, 5), (u64::MAX, 2), (100_000, 3)] {
        let e = ent(l, Some(b"\"v1\""), Some(gen::t(gen::LM, 0)), hs[hset].clone(), vec![]);
        let big = l == u64::MAX;
        let mut reqs: Vec<Req> = vec![
            Req::new("GET"),
            Req::new("GET").with("range", b"bytes=1-3"),
            Req::new("GET").with("range", b"bytes=0-1,5-6"),
            Req::new("GET").with("range", b"bytes=0-1,5-6,9-9").with("if-range", b"\"v1\""),
            Req::new("HEAD").with("range", b"bytes=0-1,5-6"),
            Req::new("GET").with("if-none-match", b"\"v1\""),
            Req::new("GET").with("if-match", b"\"zz\""),
            Req::new("GET").with("range", format!("bytes={l}-").as_bytes()),
            Req::new("POST"),
            Req::new("GET").with("if-modified-since", b"yesterday"),
        ];
        if big {
            // the estimate says multipart, the exact length does not fit 64 bits => 413
            reqs.push(Req::new("GET").with("range", format!("bytes=0-{},{}-{}", l - 170, l - 1, l - 1).as_bytes()));
            reqs.push(Req::new("GET").with("range", format!("bytes=0-{},{}-{}", l - 400, l - 1, l - 1).as_bytes()));
        }
        for r in reqs {
            reps.push((r, e.clone()));
        }
    }
    let n = reps.len() as u64;
    let ev = Eval { prop, extra_polls: 1 };
    par_for(n * n, threads(), |i, st| {
        let (a, b) = (&reps[(i / n) as usize], &reps[(i % n) as usize]);
        on_fresh_thread(|| {
            let _ = run_serve(&a.0, &a.1, 1, HORIZON);
            RECENT.with(|r| r.borrow_mut().push_back(a.clone()));
            if ev.run(&b.0, &b.1, st, (1 << 61) + i).is_some() {
                st.nontrivial(&("pair", i));
                st.count("request_pairs_on_a_fresh_thread", 1);
            }
        });
    })
}

// -------------------------------------------------------------------------------------------
// Bodies polled inside a tokio task

/// The hand-rolled poll loop of the other families never runs inside an async runtime. Here a few
/// bodies whose entity delivers HUNDREDS of always-ready frames (more than tokio's cooperative
/// budget of 128 per task poll) are drained inside a tokio task, where code that consults the
/// runtime behaves differently. Judged by the ordinary oracle.
pub fn run_in_tokio(prop: &str) -> Stats {
    let mut cases: Vec<(Req, EntSpec)> = Vec::new();
    let ones = |n: u64| Script::of(vec![crate::ent::Ev::Data(1); n as usize]);
    let hs = gen::header_sets();
    for n in [100u64, 129, 300, 1000, 1025, 3000] {
        cases.push((Req::new("GET"), ent(n, Some(b"\"v1\""), None, hs[1].clone(), vec![ones(n)])));
        cases.push((Req::new("GET").with("range", format!("bytes=10-{}", 10 + n - 1).as_bytes()), ent(5000, Some(b"\"v1\""), None, hs[1].clone(), vec![ones(n)])));
        cases.push((Req::new("GET").with("range", format!("bytes=0-{},50000-{}", n - 1, 50_000 + n - 1).as_bytes()), ent(1_000_000, Some(b"\"v1\""), None, hs[1].clone(), vec![ones(n), ones(n)])));
        // one part in a single chunk, the other in many
        cases.push((Req::new("GET").with("range", format!("bytes=7-9,50000-{}", 50_000 + n - 1).as_bytes()), ent(1_000_000, Some(b"\"v1\""), None, hs[0].clone(), vec![Script::whole(3), ones(n)])));
    }
    let mut st = Stats::new();
    // each case inside a tokio task and by the hand-rolled poll loop
    let cases2: Vec<(Req, EntSpec, bool)> = cases.iter().flat_map(|(r, e)| [(r.clone(), e.clone(), true), (r.clone(), e.clone(), false)]).collect();
    for (i, (req, e, in_tokio)) in cases2.iter().enumerate() {
        let Some(obs) = osv::run_serve_with(req, e, 2, 10 * HORIZON, *in_tokio) else { continue };
        st.evaluations += 1;
        let m = model(req, e);
        let mut fs: Vec<Finding> = Vec::new();
        check(req, e, &obs, &m, &mut fs);
        let s0 = st.state(&("tokio", obs.status, e.scripts.len()));
        let s1 = st.state(&("tokio-end", obs.body.first_terminal().map(|t| obs.body.steps[t].1.kind()), obs.body.steps.len().min(2000)));
        st.transition(s0, 0, s1);
        st.nontrivial(&("tokio", i));
        st.count("bodies_drained_inside_a_tokio_task", 1);
        st.outcome(format!("tokio/{}", obs.status));
        for f in fs {
            if f.props.contains(&prop) {
                st.violation((1 << 63) + i as u64, format!("{}:{}", f.key, if *in_tokio { "inside-a-tokio-task" } else { "many-frames" }), format!("{} ({}; {} frames)", f.msg, if *in_tokio { "body drained inside a tokio task" } else { "hundreds of ready chunks" }, obs.body.steps.len()), || {
                    let mut c = case_json(req, e, 2);
                    c["in_tokio_task"] = json!(*in_tokio);
                    c
                });
            }
        }
    }
    st
}

// -------------------------------------------------------------------------------------------
// Entity streams that must not be polled after their end

/// Honest entity streams that PANIC when polled again after they returned `None` (as
/// `futures_util::stream::unfold`, the combinator behind `ChunkedReadFile`, does): the body is
/// drained to its end and not polled further. A body that polls an entity stream once too often
/// crashes here although every stream delivered exactly its range.
pub fn run_strict_streams(prop: &str) -> Stats {
    let mut cases: Vec<(Req, EntSpec)> = Vec::new();
    let hs = gen::header_sets();
    let strict = |mut s: Script| {
        s.tail = crate::ent::Tail::Strict;
        s
    };
    for scr in gen::honour_scripts(5, 3, 1, 4) {
        cases.push((Req::new("GET"), ent(5, Some(b"\"v1\""), None, hs[1].clone(), vec![strict(scr.clone())])));
        cases.push((Req::new("GET").with("range", b"bytes=2-6"), ent(100, Some(b"\"v1\""), None, hs[1].clone(), vec![strict(scr.clone())])));
        for other in gen::honour_scripts(5, 2, 0, 2) {
            cases.push((Req::new("GET").with("range", b"bytes=2-6,50002-50006"), ent(100_000, Some(b"\"v1\""), None, hs[0].clone(), vec![strict(scr.clone()), strict(other.clone())])));
            cases.push((Req::new("GET").with("range", b"bytes=2-6,50002-50006,7-11"), ent(100_000, Some(b"\"v1\""), None, hs[1].clone(), vec![strict(other.clone()), strict(scr.clone()), strict(other.clone())])));
        }
    }
    cases.push((Req::new("GET"), ent(0, Some(b"\"v1\""), None, vec![], vec![strict(Script::of(vec![]))])));
    let mut st = Stats::new();
    for (i, (req, e)) in cases.iter().enumerate() {
        let Some(obs) = run_serve(req, e, 0, HORIZON) else { continue };
        st.evaluations += 1;
        let m = model(req, e);
        let mut fs: Vec<Finding> = Vec::new();
        check(req, e, &obs, &m, &mut fs);
        let s0 = st.state(&("strict", obs.status, e.scripts.len()));
        let s1 = st.state(&("strict-end", obs.body.first_terminal().map(|t| obs.body.steps[t].1.kind())));
        st.transition(s0, 0, s1);
        st.nontrivial(&("strict", i));
        st.count("bodies_over_streams_that_forbid_polls_after_their_end", 1);
        for f in fs {
            if f.props.contains(&prop) {
                st.violation((1 << 63) + (1 << 40) + i as u64, format!("{}:strict-entity-stream", f.key), format!("{} (entity streams that must not be polled after their end; no poll after the body's end)", f.msg), || case_json(req, e, 0));
            }
        }
    }
    st
}

// -------------------------------------------------------------------------------------------
// The "zoo": every kind of entity against every kind of request

/// Each check above takes the product of the dimensions ITS property quantifies over and keeps
/// the others plain (one tag, one header set ...). The seeded changes that were missed at first
/// nearly all needed a value that some *other* check had in its alphabet. This sweep crosses the
/// rich alphabets of all dimensions once: every entity of {12 lengths} x {13 entity tags: absent,
/// strong, weak, with comma / semicolon / '*' / backslash / obs-text, empty, 300 bytes} x {8
/// modification times: absent, epoch, epoch + 0.5 s, 1 s, 1994 whole / +1 ns / +999 999 999 ns,
/// 2100} x {8 entity header sets} against ~50 requests built from that entity's own length and
/// validators (every range form, single / multipart / unsatisfiable / many specs, If-Range hit and
/// miss, each conditional header hit and miss, the documented precedence pairs, GET and HEAD),
/// judged by the full reference model. Run by every serve_mc check for its own property.
pub fn run_zoo(prop: &str, tier: Tier) -> Stats {
    let lens: Vec<u64> = gen::LENS_THIN.to_vec();
    let etags = gen::etags_rich();
    let mtimes: Vec<Option<std::time::SystemTime>> = vec![None, Some(gen::t(0, 0)), Some(gen::t(0, 500_000_000)), Some(gen::t(1, 0)), Some(gen::t(gen::LM, 0)), Some(gen::t(gen::LM, 1)), Some(gen::t(gen::LM, 999_999_999)), Some(gen::t(4_102_444_800, 7))];
    let hsets = gen::header_sets();
    let mut ents: Vec<(u64, usize, usize, usize)> = Vec::new();
    for &l in &lens {
        for e in 0..etags.len() {
            for m in 0..mtimes.len() {
                for h in 0..hsets.len() {
                    // quick: a third of the product (every pair of dimensions still meets)
                    if tier == Tier::Quick && (e + m + h + (l % 7) as usize) % 3 != 0 {
                        continue;
                    }
                    ents.push((l, e, m, h));
                }
            }
        }
    }
    let ev = Eval { prop, extra_polls: 2 };
    par_for(ents.len() as u64, threads(), |i, st| {
        let (l, ei, mi, hi) = ents[i as usize];
        let etag = etags[ei].clone();
        let mt = mtimes[mi];
        let entity = ent(l, etag.as_deref(), mt, hsets[hi].clone(), vec![]);
        let lm_secs = mt.map(|t| t.duration_since(std::time::UNIX_EPOCH).unwrap().as_secs());
        let mut ranges: Vec<Option<String>> = vec![None, Some("bytes=0-0".into()), Some("bytes=-1".into()), Some("bytes=1-".into()), Some(format!("bytes={l}-")), Some("bytes=0-0,2-3".into()), Some("bytes=5-6, 0-1,5-6".into()), Some("bytes=-2,0-0".into()), Some(format!("bytes=0-{}", u64::MAX))];
        ranges.push(Some(format!("bytes={}", (0..20u64).map(|k| format!("{}-{}", 7 * k, 7 * k + 2)).collect::<Vec<_>>().join(","))));
        let mut conds: Vec<Vec<(&str, Vec<u8>)>> = vec![vec![]];
        if let Some(t) = &etag {
            conds.push(vec![("if-none-match", t.clone())]);
            conds.push(vec![("if-match", t.clone())]);
            conds.push(vec![("if-range", t.clone())]);
            conds.push(vec![("if-none-match", [&b"\"zz\", "[..], &t[..]].concat())]);
        }
        conds.push(vec![("if-none-match", b"\"zz\"".to_vec())]);
        conds.push(vec![("if-match", b"\"zz\"".to_vec())]);
        conds.push(vec![("if-range", b"\"zz\"".to_vec())]);
        conds.push(vec![("if-match", b"*".to_vec())]);
        if let Some(s) = lm_secs {
            conds.push(vec![("if-modified-since", fmt_imf(s).into_bytes())]);
            conds.push(vec![("if-unmodified-since", fmt_imf(s).into_bytes())]);
            conds.push(vec![("if-modified-since", fmt_imf(s + 1).into_bytes()), ("if-none-match", b"\"zz\"".to_vec())]);
            conds.push(vec![("if-unmodified-since", fmt_imf(s.saturating_sub(1)).into_bytes()), ("if-match", b"*".to_vec())]);
            conds.push(vec![("if-range", fmt_imf(s).into_bytes())]);
            if s > 0 {
                conds.push(vec![("if-unmodified-since", fmt_rfc850(gen::LM).into_bytes())]);
            }
        }
        let mut order = i << 20;
        for (ci, c) in conds.iter().enumerate() {
            for (ri, r) in ranges.iter().enumerate() {
                // the full conditional x range product only for a few combinations
                if ci > 0 && ri > 0 && !(ri == 1 || ri == 5 || ri == 4) {
                    continue;
                }
                for me in ["GET", "HEAD"] {
                    if me == "HEAD" && (ci + ri) % 2 == 1 {
                        continue;
                    }
                    let mut req = Req::new(me);
                    if let Some(r) = r {
                        req = req.with("range", r.as_bytes());
                    }
                    for (k, v) in c {
                        req = req.with(k, v);
                    }
                    order += 1;
                    if ev.run(&req, &entity, st, order).is_some() {
                        st.nontrivial(&("zoo", i, ci, ri, me));
                        st.count("zoo_executions", 1);
                    }
                }
            }
        }
    })
}

// -------------------------------------------------------------------------------------------
// Replay

pub fn replay(case: &serde_json::Value, prop: &str) -> i32 {
    let req = Req::from_json(&case["request"]);
    let e = osv::ent_from_json(&case["entity"]);
    let extra = case["extra_polls"].as_u64().unwrap_or(2) as usize;
    let history: Vec<(Req, EntSpec)> = case["history"].as_array().map(|a| a.iter().map(|h| (Req::from_json(&h["request"]), osv::ent_from_json(&h["entity"]))).collect()).unwrap_or_default();
    if !history.is_empty() {
        println!("replaying after {} earlier request(s) on the same (fresh) thread", history.len());
    }
    let in_tokio = case["in_tokio_task"].as_bool().unwrap_or(false);
    let run1 = || if in_tokio { osv::run_serve_with(&req, &e, extra, 10 * HORIZON, true) } else { run_after(&history, &req, &e, extra) };
    let Some(o1) = run1() else {
        eprintln!("request not constructible");
        return 2;
    };
    let o2 = run1().unwrap();
    if o1.stable_repr() != o2.stable_repr() {
        eprintln!("MACHINERY ERROR: two replays of the same case differ");
        return 2;
    }
    println!("{}", serde_json::to_string_pretty(&o1.to_json()).unwrap());
    let m = model(&req, &e);
    println!("model: cond={:?} gate={:?} admissible={:?} range_free={}", m.cond, m.gate, m.shapes, m.range_free);
    let mut fs = Vec::new();
    check(&req, &e, &o1, &m, &mut fs);
    check_validators(&req, &e, &o1, &mut fs);
    if req.method == "HEAD" {
        let mut g = req.clone();
        g.method = "GET".into();
        if let Some(og) = run_serve(&g, &e, extra, HORIZON) {
            check_head_mirror(&og, &o1, &mut fs);
        }
    }
    let mut bad = false;
    for f in fs {
        let mine = f.props.contains(&prop);
        println!("{} [{}] {}: {}", if mine { "VIOLATED" } else { "(other property)" }, f.props.join(","), f.key, f.msg);
        bad |= mine;
    }
    if bad {
        1
    } else {
        println!("no violation of {prop} on this case");
        0
    }
}

// -------------------------------------------------------------------------------------------
// C12 (serve side): hints + end flag on every step of the C01 / C06 spaces, Body::from

pub fn body_from_cases(prop: &str, st: &mut Stats) {
    use crate::drive::{drain, Obs, SBody};
    let lits: [&'static str; 3] = ["", "a", "hello"];
    let mut order = 1u64 << 61;
    for lit in lits {
        let bodies: Vec<(&str, SBody)> = vec![
            ("from-static-str", SBody::from(lit)),
            ("from-static-bytes", SBody::from(lit.as_bytes())),
            ("from-vec", SBody::from(lit.as_bytes().to_vec())),
            ("from-string", SBody::from(lit.to_string())),
            ("empty", SBody::empty()),
        ];
        for (kind, b) in bodies {
            order += 1;
            let want: &[u8] = if kind == "empty" { b"" } else { lit.as_bytes() };
            let t = drain(b, 3, 16);
            st.evaluations += 1;
            st.nontrivial(&(kind, lit));
            let mut prev = st.state(&("body-from", kind, lit.len(), 0usize));
            for (i, (s, o)) in t.steps.iter().enumerate() {
                let cur = st.state(&("body-from", kind, s.lower, s.is_end, o.kind(), i + 1));
                st.transition(prev, hash_of(&o.kind()), cur);
                prev = cur;
            }
            st.outcome(format!("body-from/{kind}"));
            let mut fs = Vec::new();
            osv::check_hints(&t, true, &mut fs);
            let got: Vec<u8> = t.steps.iter().flat_map(|(_, o)| if let Obs::Real(v) = o { v.clone() } else { vec![] }).collect();
            if got != want {
                fs.push(Finding { props: vec!["C12", "C01"], key: "body-from-bytes".into(), msg: format!("Body::{kind}({lit:?}) delivered {got:?}") });
            }
            match t.steps.first() {
                Some((s, _)) if s.lower == want.len() as u64 && s.upper == Some(want.len() as u64) => {}
                other => fs.push(Finding { props: vec!["C12"], key: "body-from-hint".into(), msg: format!("Body::{kind}({lit:?}) initial hint {other:?}") }),
            }
            if let Some(p) = t.steps.iter().find_map(|(_, o)| if let Obs::Panic(p) = o { Some(p.clone()) } else { None }) {
                fs.push(Finding { props: vec!["C12", "C20", "C13"], key: "body-from-panic".into(), msg: p });
            }
            if let Some(term) = t.first_terminal() {
                if t.steps[term + 1..].iter().any(|(_, o)| o.data_len() > 0) {
                    fs.push(Finding { props: vec!["C20"], key: "body-from-data-after-end".into(), msg: format!("Body::{kind}({lit:?}) yielded data after its end") });
                }
            }
            for f in fs {
                if f.props.contains(&prop) {
                    st.violation(order, f.key.clone(), f.msg.clone(), || json!({"engine": "body_from", "kind": kind, "literal": lit}));
                }
            }
        }
    }
}

pub fn run_c12_serve(run: &mut Run) -> Stats {
    let tier = run.tier;
    run.assumptions.push("serve bodies: entity streams honour the Entity contract".into());
    // C01 space (thinned to GET, fewer conditional combinations are irrelevant to the body) ...
    let mut r1 = Run::new(&run.prop, "serve_mc", tier);
    let mut st = run_c01(&mut r1);
    // ... C06 space ...
    let mut r2 = Run::new(&run.prop, "serve_mc", tier);
    st.merge(run_c06(&mut r2));
    // ... the fault space (C07): judged here only for the end-of-stream flag of bodies whose
    // entity stream reports a failure of its own ...
    let mut rf = Run::new(&run.prop, "serve_mc", tier);
    let sf = run_faults(&mut rf, 4, false);
    run.extra.insert("fault_space_executions".into(), json!(sf.evaluations));
    st.merge(sf);
    // ... and the conversions.
    let mut s3 = Stats::new();
    body_from_cases(&run.prop, &mut s3);
    st.merge(s3);
    // streaming bodies: the C08 / C09 / C11 history sweeps with the hint monitor
    let s4 = crate::stream_mc::run_monitor(&run.prop, tier, 2);
    run.extra.insert("serve_side_executions".into(), json!(st.evaluations));
    run.extra.insert("streaming_histories".into(), json!(s4.evaluations));
    st.merge(s4);
    // ... and under the controlled scheduler: the consumer samples the hint and the flag before
    // every poll while the producer runs concurrently (every interleaving, preemption bound 2)
    let (s5, fam) = crate::sched_mc::run_monitor_families(&run.prop, tier);
    run.extra.insert("concurrent_schedules".into(), json!(s5.evaluations));
    run.extra.insert("concurrent_families".into(), fam);
    st.merge(s5);
    run.rule = "monitor (size_hint lower/upper, is_end_stream sampled before every poll) on every execution of: the C01 space (all requests x chunkings), the C06 multipart space, every Body::from / Body::empty conversion over lengths {0,1,5}, and the C08/C09/C11 streaming history sweeps (raw and gzip writers, with abort and body drop). Retrospective oracle per sample: lower <= bytes delivered afterwards <= upper on a clean end; exact hint for serve / Body::from bodies; is_end_stream true => no later bytes and no later error (this clause also on every body of the C07 fault space whose entity stream fails with an error of its own, including streams that go on after that error). non-trivial = distinct (case, chunking) or (config, history)".into();
    run.bounds = json!({"serve": "as C01 and C06", "streaming": "as C08/C11 one level shallower"});
    st
}

pub fn run_c20_serve(run: &mut Run) -> Stats {
    let tier = run.tier;
    let two = tier == Tier::Thorough;
    let mut st = run_faults(run, 4, two);
    let mut r2 = Run::new(&run.prop, "serve_mc", tier);
    st.merge(run_c06(&mut r2));
    let mut r3 = Run::new(&run.prop, "serve_mc", tier);
    st.merge(run_c02(&mut r3));
    let mut s3 = Stats::new();
    body_from_cases(&run.prop, &mut s3);
    st.merge(s3);
    let s4 = crate::stream_mc::run_monitor(&run.prop, tier, 4);
    run.extra.insert("serve_side_executions".into(), json!(st.evaluations));
    run.extra.insert("streaming_histories".into(), json!(s4.evaluations));
    st.merge(s4);
    let (s5, fam) = crate::sched_mc::run_monitor_families(&run.prop, tier);
    run.extra.insert("concurrent_schedules".into(), json!(s5.evaluations));
    run.extra.insert("concurrent_families".into(), fam);
    st.merge(s5);
    run.rule = "every execution of the fault space of C07 (all shapes x fault kinds x positions), the C06 multipart space, the C02 single-range space, all Body::from conversions and the C08/C09/C11 streaming history sweeps is continued for 4 more polls after its first terminal event (clean end, entity error, too-short, too-long, abort); oracle: none of them panics (debug assertions on) or yields bytes. The counters list the (shape : fault : terminal) cells reached. non-trivial = distinct (shape, fault script vector) or (config, history)".into();
    run.assumptions.push("entity streams stay finished once finished or failed (fused scripts; Err is the last event of a script) -- the premise in the statement".into());
    st
}
