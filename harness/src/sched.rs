//! Controlled cooperative scheduler: logical threads are real OS threads, but exactly one runs
//! at a time, and only past a *decision point* when the explorer grants it. Decision points:
//! thread start, before every acquisition of the instrumented mutex (hook in
//! `http_serve::verif_hooks`), `wake()` on a harness waker (before its effect), the consumer's
//! park, the producer's wait-until-delivered, and explicit environment choices (waker identity).
//! Unlock is bookkeeping only (see DESIGN.md 2.4). `try_lock` (not used by the crate today) is a
//! decision point that never blocks; executions created with `cs_preempt` also let the explorer
//! deschedule a thread right after it acquired the mutex, which only `try_lock` can observe.

use std::sync::{Arc, Condvar, Mutex};
use std::task::{Wake, Waker};

#[derive(Clone, Copy, Debug, PartialEq, Eq, Hash)]
pub enum Point {
    Start,
    BeforeLock(usize),
    /// `try_lock`: never waits; fails if the mutex is held
    BeforeTryLock(usize),
    /// just acquired the mutex (a decision point only in executions that preempt inside
    /// critical sections, see `Sched::new`)
    Locked(usize),
    /// wake() of the waker with this generation
    Wake(u64),
    /// consumer got Pending and goes to sleep until woken (generation it registered)
    Park(u64),
    /// producer waits until the consumer has received `n` bytes (or seen the terminal event)
    WaitDelivered(usize),
    /// environment choice with this many answers
    Choice(u32),
}

#[derive(Clone, Copy, Debug, PartialEq, Eq, Hash)]
pub struct Opt {
    pub thread: usize,
    pub answer: u32,
    /// switching away from a thread that could have continued
    pub preempt: bool,
    /// resuming a parked consumer that was not woken
    pub spurious: bool,
    /// a non-default environment answer (fresh waker)
    pub env: bool,
}

#[derive(Clone, Debug)]
pub struct Step {
    pub opts: Vec<Opt>,
    pub chosen: usize,
    pub point: Point,
    /// scheduler state in which the decision was taken: progress counters of the logical
    /// threads, what each is blocked at, the lock holder, pending wake flags, bytes delivered
    pub pcs: Vec<usize>,
    pub at: Vec<Option<&'static str>>,
    pub holder: Option<usize>,
    pub woken: bool,
    pub delivered: usize,
}

#[derive(Clone, Copy, Debug, PartialEq, Eq, Hash)]
pub enum End {
    AllFinished,
    Deadlock,
    Horizon,
    /// a logical thread ran for 10 s without reaching a decision point (it is spinning, or
    /// blocked on something the scheduler does not control)
    Stuck,
}

impl Point {
    pub fn kind(&self) -> &'static str {
        match self {
            Point::Start => "start",
            Point::BeforeLock(_) => "lock",
            Point::BeforeTryLock(_) => "try-lock",
            Point::Locked(_) => "locked",
            Point::Wake(_) => "wake",
            Point::Park(_) => "park",
            Point::WaitDelivered(_) => "wait",
            Point::Choice(_) => "choice",
        }
    }
}

pub struct Aborted;

struct SS {
    at: Vec<Option<Point>>,
    finished: Vec<bool>,
    running: Option<usize>,
    grant: Option<(usize, u32)>,
    aborted: bool,
    /// (mutex address, holder): the subject may use more than one instrumented mutex
    held: Vec<(usize, usize)>,
    woken: Vec<bool>,
    delivered: usize,
    terminal_seen: bool,
    spurious_left: u32,
    env_left: u32,
    last: Option<usize>,
    pcs: Vec<usize>,
    /// choice vector to replay (then answer 0 everywhere)
    prefix: Vec<usize>,
    horizon: usize,
    end: Option<End>,
    steps: Vec<Step>,
    /// hook events seen from a thread that already holds the lock etc. (diagnostics)
    notes: Vec<String>,
    /// the holder of the mutex can be descheduled right after acquiring it (only matters to
    /// code that uses try_lock, which observes "held")
    cs_preempt: bool,
    try_lock_seen: bool,
}

pub struct Sched {
    m: Mutex<SS>,
    /// the explorer waits here
    cv: Condvar,
    /// each logical thread waits on its own condition variable (no thundering herd)
    cvt: Vec<Condvar>,
}

thread_local! {
    static CURRENT: std::cell::Cell<Option<usize>> = const { std::cell::Cell::new(None) };
}

pub fn set_current(id: Option<usize>) {
    CURRENT.with(|c| c.set(id));
}

impl Sched {
    pub fn new(nthreads: usize, spurious: u32, env: u32, prefix: &[usize], horizon: usize) -> Arc<Sched> {
        Sched::new_cs(nthreads, spurious, env, prefix, horizon, false)
    }

    pub fn new_cs(nthreads: usize, spurious: u32, env: u32, prefix: &[usize], horizon: usize, cs_preempt: bool) -> Arc<Sched> {
        Arc::new(Sched {
            m: Mutex::new(SS {
                at: vec![None; nthreads],
                finished: vec![false; nthreads],
                running: None,
                grant: None,
                aborted: false,
                held: Vec::new(),
                woken: vec![false; 64],
                delivered: 0,
                terminal_seen: false,
                spurious_left: spurious,
                env_left: env,
                last: None,
                pcs: vec![0; nthreads],
                prefix: prefix.to_vec(),
                horizon,
                end: None,
                steps: Vec::new(),
                notes: Vec::new(),
                cs_preempt,
                try_lock_seen: false,
            }),
            cv: Condvar::new(),
            cvt: (0..nthreads).map(|_| Condvar::new()).collect(),
        })
    }

    fn wake_all_threads(&self) {
        for c in &self.cvt {
            c.notify_all();
        }
    }

    /// Called by a logical thread: block at a decision point until granted.
    pub fn point(&self, me: usize, p: Point) -> Result<u32, Aborted> {
        let mut s = self.m.lock().unwrap();
        if s.aborted {
            return Err(Aborted);
        }
        s.at[me] = Some(p);
        if s.running == Some(me) {
            s.running = None;
        }
        // The arriving thread takes the scheduling decision itself: when the default choice
        // "continue the same thread" applies there is no context switch at all.
        self.schedule(&mut s);
        loop {
            if s.aborted {
                s.at[me] = None;
                return Err(Aborted);
            }
            if let Some((t, a)) = s.grant {
                if t == me {
                    s.grant = None;
                    s.at[me] = None;
                    s.running = Some(me);
                    return Ok(a);
                }
            }
            s = self.cvt[me].wait(s).unwrap();
        }
    }

    pub fn finish(&self, me: usize) {
        let mut s = self.m.lock().unwrap();
        s.finished[me] = true;
        if s.running == Some(me) {
            s.running = None;
        }
        self.schedule(&mut s);
        self.cv.notify_all();
    }

    pub fn aborted(&self) -> bool {
        self.m.lock().unwrap().aborted
    }

    // ---- bookkeeping calls from the running thread (no decision) -----------------------
    pub fn unlocked(&self, me: usize, addr: usize) {
        let mut s = self.m.lock().unwrap();
        if let Some(i) = s.held.iter().position(|(a, t)| *a == addr && *t == me) {
            s.held.remove(i);
        } else if !s.aborted {
            let holder = s.held.iter().find(|(a, _)| *a == addr).map(|(_, t)| *t);
            s.notes.push(format!("unlock of {addr:#x} by {me} while its holder is {holder:?}"));
        }
    }
    /// A logical thread reports that it completed one more of its own operations.
    pub fn progress(&self, me: usize) {
        self.m.lock().unwrap().pcs[me] += 1;
    }
    pub fn add_delivered(&self, n: usize) {
        self.m.lock().unwrap().delivered += n;
    }
    pub fn set_terminal(&self) {
        self.m.lock().unwrap().terminal_seen = true;
    }
    pub fn step_count(&self) -> usize {
        self.m.lock().unwrap().steps.len()
    }
    pub fn delivered(&self) -> usize {
        self.m.lock().unwrap().delivered
    }

    fn options(s: &SS) -> Vec<Opt> {
        let n = s.at.len();
        let enabled = |t: usize| -> Option<(u32, bool)> {
            // (number of answers, spurious?)
            match s.at[t]? {
                Point::Start => Some((1, false)),
                Point::BeforeLock(a) => {
                    // free, or (a self-deadlock of the subject) held by the asking thread itself:
                    // either way nobody else can release it for us
                    if s.held.iter().all(|(h, _)| *h != a) {
                        Some((1, false))
                    } else {
                        None
                    }
                }
                Point::BeforeTryLock(_) | Point::Locked(_) => Some((1, false)),
                Point::Wake(_) => Some((1, false)),
                Point::Park(g) => {
                    if s.woken[g as usize % 64] {
                        Some((1, false))
                    } else if s.spurious_left > 0 {
                        Some((1, true))
                    } else {
                        None
                    }
                }
                Point::WaitDelivered(need) => {
                    if s.delivered >= need || s.terminal_seen || s.finished[1 - t.min(1)] {
                        Some((1, false))
                    } else {
                        None
                    }
                }
                Point::Choice(k) => Some((if s.env_left > 0 { k } else { 1 }, false)),
            }
        };
        let mut order: Vec<usize> = Vec::new();
        if let Some(l) = s.last {
            order.push(l);
        }
        for t in 0..n {
            if Some(t) != s.last {
                order.push(t);
            }
        }
        let last_enabled = s.last.map(|l| enabled(l).is_some()).unwrap_or(false);
        let mut opts = Vec::new();
        for t in order {
            if let Some((answers, spurious)) = enabled(t) {
                for a in 0..answers {
                    opts.push(Opt {
                        thread: t,
                        answer: a,
                        preempt: last_enabled && Some(t) != s.last,
                        spurious,
                        env: a > 0,
                    });
                }
            }
        }
        opts
    }

    /// Takes the next scheduling decision if every unfinished thread is blocked at a decision
    /// point. Called (with the state locked) by whichever logical thread arrives last.
    fn schedule(&self, s: &mut SS) {
        if s.end.is_some() || s.aborted || s.grant.is_some() || s.running.is_some() {
            return;
        }
        if (0..s.at.len()).any(|t| !s.finished[t] && s.at[t].is_none()) {
            return; // somebody has not arrived yet
        }
        if s.finished.iter().all(|f| *f) {
            s.end = Some(End::AllFinished);
            self.cv.notify_all();
            return;
        }
        let opts = Self::options(s);
        if opts.is_empty() || s.steps.len() >= s.horizon {
            s.end = Some(if opts.is_empty() { End::Deadlock } else { End::Horizon });
            s.aborted = true;
            self.wake_all_threads();
            self.cv.notify_all();
            return;
        }
        let i = s.steps.len();
        let k = if i < s.prefix.len() { s.prefix[i] } else { 0 };
        assert!(k < opts.len(), "replay divergence: choice {k} of {} at step {i}", opts.len());
        let o = opts[k];
        let p = s.at[o.thread].unwrap();
        let at: Vec<Option<&'static str>> = s.at.iter().map(|p| p.map(|p| p.kind())).collect();
        let (pcs, holder, woken, delivered) = (s.pcs.clone(), s.held.first().map(|(_, t)| *t), s.woken.iter().any(|w| *w), s.delivered);
        // effects of proceeding past the point
        match p {
            Point::BeforeLock(a) => s.held.push((a, o.thread)),
            Point::BeforeTryLock(a) => {
                // mirrors what the real try_lock is about to find
                s.try_lock_seen = true;
                if s.held.iter().all(|(h, _)| *h != a) {
                    s.held.push((a, o.thread));
                }
            }
            Point::Wake(g) => s.woken[g as usize % 64] = true,
            Point::Park(g) => {
                if s.woken[g as usize % 64] {
                    s.woken[g as usize % 64] = false;
                } else {
                    s.spurious_left -= 1;
                }
            }
            Point::Choice(_) => {
                if o.answer > 0 {
                    s.env_left -= 1;
                }
            }
            _ => {}
        }
        s.steps.push(Step { opts, chosen: k, point: p, pcs, at, holder, woken, delivered });
        s.last = Some(o.thread);
        s.grant = Some((o.thread, o.answer));
        self.cvt[o.thread].notify_all();
    }

    /// Explorer side: wait for the execution to end (10 s watchdog for a thread that spins or
    /// blocks outside the scheduler's control).
    pub fn wait_end(&self) -> End {
        let mut s = self.m.lock().unwrap();
        let t0 = std::time::Instant::now();
        loop {
            if let Some(e) = s.end {
                return e;
            }
            if t0.elapsed() > std::time::Duration::from_secs(10) {
                s.end = Some(End::Stuck);
                s.aborted = true;
                self.wake_all_threads();
                return End::Stuck;
            }
            s = self.cv.wait_timeout(s, std::time::Duration::from_millis(500)).unwrap().0;
        }
    }

    /// Returns false if they did not finish within 3 s (e.g. a thread really blocked on the
    /// mutex it holds itself); the caller then abandons those host threads.
    pub fn wait_all_finished(&self) -> bool {
        let mut s = self.m.lock().unwrap();
        let t0 = std::time::Instant::now();
        while !s.finished.iter().all(|f| *f) {
            if t0.elapsed() > std::time::Duration::from_secs(3) {
                return false;
            }
            s = self.cv.wait_timeout(s, std::time::Duration::from_millis(200)).unwrap().0;
        }
        true
    }

    pub fn take_steps(&self) -> (Vec<Step>, Vec<String>) {
        let mut s = self.m.lock().unwrap();
        (std::mem::take(&mut s.steps), std::mem::take(&mut s.notes))
    }

    pub fn holder(&self) -> Option<usize> {
        self.m.lock().unwrap().held.first().map(|(_, t)| *t)
    }

    pub fn cs_preempt(&self) -> bool {
        self.m.lock().unwrap().cs_preempt
    }

    /// Did the subject call try_lock during this execution?
    pub fn try_lock_seen(&self) -> bool {
        self.m.lock().unwrap().try_lock_seen
    }
}

/// Installs the mutex hook of the calling OS thread for logical thread `me`.
pub fn install_hook(sched: &Arc<Sched>, me: usize) {
    use http_serve::verif_hooks::{set_thread_hook, Event};
    set_current(Some(me));
    let s = sched.clone();
    set_thread_hook(Some(Arc::new(move |ev: Event| match ev {
        Event::BeforeLock(a) => {
            let _ = s.point(me, Point::BeforeLock(a));
        }
        Event::AfterUnlock(a) => s.unlocked(me, a),
        Event::BeforeTryLock(a) => {
            let _ = s.point(me, Point::BeforeTryLock(a));
        }
        Event::Locked(a) => {
            if s.cs_preempt() {
                let _ = s.point(me, Point::Locked(a));
            }
        }
    })));
}

pub fn remove_hook() {
    http_serve::verif_hooks::set_thread_hook(None);
    set_current(None);
}

/// Harness waker: `wake` is a decision point of the calling logical thread; its effect
/// (marking the generation as woken) is applied when the explorer lets it proceed.
pub struct SWaker {
    pub sched: Arc<Sched>,
    pub gen: u64,
}

impl Wake for SWaker {
    fn wake(self: Arc<Self>) {
        self.wake_by_ref()
    }
    fn wake_by_ref(self: &Arc<Self>) {
        match CURRENT.with(|c| c.get()) {
            Some(me) => {
                if self.sched.point(me, Point::Wake(self.gen)).is_err() {
                    // aborted run: apply directly
                    self.sched.m.lock().unwrap().woken[self.gen as usize % 64] = true;
                }
            }
            None => self.sched.m.lock().unwrap().woken[self.gen as usize % 64] = true,
        }
    }
}

pub fn new_waker(sched: &Arc<Sched>, gen: u64) -> Waker {
    Waker::from(Arc::new(SWaker {
        sched: sched.clone(),
        gen,
    }))
}

/// A pair of persistent OS threads that host the two logical threads of one explorer worker
/// (spawning two threads per execution costs more than the execution itself).
pub struct Hosts {
    tx: Vec<std::sync::mpsc::Sender<Box<dyn FnOnce() + Send>>>,
    done: std::sync::mpsc::Receiver<usize>,
}

impl Hosts {
    pub fn new(n: usize) -> Hosts {
        let (dtx, drx) = std::sync::mpsc::channel::<usize>();
        let mut tx = Vec::new();
        for id in 0..n {
            let (jtx, jrx) = std::sync::mpsc::channel::<Box<dyn FnOnce() + Send>>();
            let dtx = dtx.clone();
            std::thread::Builder::new()
                .stack_size(512 * 1024)
                .spawn(move || {
                    for job in jrx {
                        job();
                        if dtx.send(id).is_err() {
                            break;
                        }
                    }
                })
                .expect("spawn host thread");
            tx.push(jtx);
        }
        Hosts { tx, done: drx }
    }
    pub fn start(&self, id: usize, job: Box<dyn FnOnce() + Send>) {
        self.tx[id].send(job).expect("host thread alive");
    }
    /// Waits until `n` jobs have completed.
    pub fn join(&self, n: usize) {
        for _ in 0..n {
            self.done.recv().expect("host thread alive");
        }
    }
}

thread_local! {
    static HOSTS: std::cell::RefCell<Option<std::rc::Rc<Hosts>>> = const { std::cell::RefCell::new(None) };
}

/// Runs `f` with the calling explorer thread's pair of host threads.
pub fn with_hosts<R>(f: impl FnOnce(&Hosts) -> R) -> R {
    let h = HOSTS.with(|h| h.borrow_mut().get_or_insert_with(|| std::rc::Rc::new(Hosts::new(2))).clone());
    f(&h)
}

/// Abandons the current host threads (they are stuck inside the subject) and starts fresh ones
/// at the next use.
static ABANDONED: std::sync::atomic::AtomicUsize = std::sync::atomic::AtomicUsize::new(0);

/// Number of executions whose threads had to be abandoned (each costs seconds and leaks two
/// threads, so explorers stop early once a few have happened: the verdict is a violation anyway).
pub fn abandon_count() -> usize {
    ABANDONED.load(std::sync::atomic::Ordering::Relaxed)
}

pub fn abandon_hosts() {
    ABANDONED.fetch_add(1, std::sync::atomic::Ordering::Relaxed);
    HOSTS.with(|h| {
        if let Some(old) = h.borrow_mut().take() {
            std::mem::forget(old);
        }
    });
}
