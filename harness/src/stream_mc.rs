//! `stream_mc`: every operation history (up to a depth) of `streaming_body`'s writer and body,
//! single-threaded, against a reference model that is a byte vector and a few cursors.

use crate::drive::{HErr2, Obs, Poller, Sample};
use crate::ent::HErr;
use crate::oracle::gzip;
use crate::oracle::serve::Finding;
use crate::report::{hash_of, par_for, threads, Run, Stats, Tier};
use crate::vbuf::{content_byte, VBuf};
use serde_json::json;
use std::io::Write;
use std::panic::{catch_unwind, AssertUnwindSafe};

pub type Writer = http_serve::BodyWriter<VBuf, HErr>;

#[derive(Clone, Copy, Debug, PartialEq, Eq, Hash)]
pub enum Op {
    /// `write` of n bytes
    W(usize),
    /// `write_all` of n bytes
    WA(usize),
    /// `write_vectored` of n bytes given as three slices (n/3, n/3, rest)
    WV(usize),
    /// `write!(w, "{}{}", a, b)` (write_fmt with arguments) of n bytes of text
    WF(usize),
    F,
    /// one poll
    P,
    /// poll until Pending or terminal
    PP,
    /// flush, then poll until Pending or terminal (availability right after the flush)
    FPP,
    A,
    DW,
    DB,
}

impl Op {
    pub fn to_json(&self) -> serde_json::Value {
        match self {
            Op::W(n) => json!({"write": n}),
            Op::WA(n) => json!({"write_all": n}),
            Op::WV(n) => json!({"write_vectored": n}),
            Op::WF(n) => json!({"write_fmt": n}),
            Op::F => json!("flush"),
            Op::P => json!("poll"),
            Op::PP => json!("poll_until_pending"),
            Op::FPP => json!("flush_then_poll_until_pending"),
            Op::A => json!("abort"),
            Op::DW => json!("drop_writer"),
            Op::DB => json!("drop_body"),
        }
    }
    pub fn from_json(v: &serde_json::Value) -> Op {
        if let Some(s) = v.as_str() {
            match s {
                "flush" => Op::F,
                "poll" => Op::P,
                "poll_until_pending" => Op::PP,
                "flush_then_poll_until_pending" => Op::FPP,
                "abort" => Op::A,
                "drop_writer" => Op::DW,
                "drop_body" => Op::DB,
                _ => panic!("bad op"),
            }
        } else if let Some(n) = v.get("write") {
            Op::W(n.as_u64().unwrap() as usize)
        } else if let Some(n) = v.get("write_vectored") {
            Op::WV(n.as_u64().unwrap() as usize)
        } else if let Some(n) = v.get("write_fmt") {
            Op::WF(n.as_u64().unwrap() as usize)
        } else {
            Op::WA(v["write_all"].as_u64().unwrap() as usize)
        }
    }
}

#[derive(Clone, Copy, Debug, PartialEq, Eq, Hash)]
pub enum Payload {
    /// position-dependent pseudo-random bytes (incompressible)
    Rand,
    /// all 'a'
    Rep,
    /// alternating 700-byte blocks of the two
    Mixed,
}

impl Payload {
    pub fn byte(&self, i: usize) -> u8 {
        match self {
            Payload::Rand => content_byte(i as u64),
            Payload::Rep => b'a',
            Payload::Mixed => {
                if (i / 700) % 2 == 0 {
                    content_byte(i as u64)
                } else {
                    b'a' + (i % 3) as u8
                }
            }
        }
    }
    pub fn slice(&self, pos: usize, n: usize) -> Vec<u8> {
        (pos..pos + n).map(|i| self.byte(i)).collect()
    }
}

#[derive(Clone, Debug, PartialEq, Eq, Hash)]
pub struct Config {
    pub chunk: usize,
    pub level: u32,
    /// Accept-Encoding request header, if any.
    pub accept: Option<String>,
    pub payload: Payload,
    /// the consumer presents a different waker at every poll
    pub fresh_wakers: bool,
    /// every poll runs on a freshly spawned OS thread (serde default: false)
    pub hop_threads: bool,
}

impl Config {
    pub fn gzip(&self) -> bool {
        // decided by the *observed* Content-Encoding in `History::new`; this is the intent
        self.accept.is_some() && self.level > 0
    }
    pub fn to_json(&self) -> serde_json::Value {
        json!({"chunk_size": self.chunk, "gzip_level": self.level, "accept_encoding": self.accept, "payload": format!("{:?}", self.payload), "fresh_waker_per_poll": self.fresh_wakers, "each_poll_on_a_fresh_thread": self.hop_threads})
    }
    pub fn from_json(v: &serde_json::Value) -> Config {
        Config {
            chunk: v["chunk_size"].as_u64().unwrap() as usize,
            level: v["gzip_level"].as_u64().unwrap() as u32,
            accept: v["accept_encoding"].as_str().map(|s| s.to_string()),
            payload: match v["payload"].as_str() {
                Some("Rep") => Payload::Rep,
                Some("Mixed") => Payload::Mixed,
                _ => Payload::Rand,
            },
            fresh_wakers: v["fresh_waker_per_poll"].as_bool().unwrap_or(false),
            hop_threads: v["each_poll_on_a_fresh_thread"].as_bool().unwrap_or(false),
        }
    }
}

#[derive(Clone, Copy, Debug, PartialEq, Eq, Hash)]
pub enum Term {
    Live,
    WriterDropped,
    Aborted,
}

/// Result of executing one history: findings and per-step canonical states.
pub struct Outcome {
    pub findings: Vec<Finding>,
    /// canonical (model, observable) state after each op
    pub states: Vec<u64>,
    pub labels: Vec<u64>,
    pub repr: String,
    pub class: String,
    /// complete delivered body (when the history ended cleanly)
    pub body: Option<Vec<u8>>,
}

#[allow(clippy::ptr_arg)]
fn fnd(props: &[&'static str], key: impl Into<String>, msg: impl Into<String>) -> Finding {
    Finding {
        props: props.to_vec(),
        key: key.into(),
        msg: msg.into(),
    }
}

pub struct Exec {
    pub cfg: Config,
    pub resp_headers: Vec<(String, Vec<u8>)>,
    pub gz: bool,
    pub w: Option<crate::drive::LeakOnUnwind<Writer>>,
    pub p: Option<Poller>,
    /// the subject panicked: its state may be poisoned, nothing more is called or dropped
    pub subject_panicked: bool,
    // ---- reference model ----
    pub accepted: Vec<u8>,
    pos: usize,
    /// bytes that must be obtainable by polling without further writer calls
    flushed_upto: usize,
    /// identity coding: delivered plain bytes; gzip: delivered coded bytes
    pub delivered: Vec<u8>,
    /// incremental independent decoder of the delivered frames (gzip coding only)
    gzs: gzip::GzStream,
    pub term: Term,
    body_gone: bool,
    /// raw writer: bytes accepted since the last chunk hand-over (flush or full chunk)
    buffered: usize,
    /// plain bytes accepted since the last successful flush (gzip bookkeeping)
    since_flush: usize,
    /// writer saw its first error
    writer_failed: bool,
    accepted_after_db: usize,
    // ---- observation ----
    samples: Vec<(Sample, usize, bool, usize)>, // (sample, delivered.len() then, taken after the terminal event, data frames seen then)
    /// data frames delivered so far, empty ones included
    frames_seen: usize,
    pub terminal_seen: Option<Obs>,
    polls_after_terminal: usize,
    pending_since_abort: bool,
    /// the last poll returned Pending and nothing was polled since: wake count of the waker it
    /// presented, at that moment
    parked: Option<usize>,
    pub out: Vec<Finding>,
    log: Vec<String>,
}

impl Exec {
    pub fn new(cfg: &Config, method: &str) -> Result<Exec, String> {
        Exec::new_repr(cfg, method, false)
    }

    /// `as_parts`: hand the request to `streaming_body` as `http::request::Parts`.
    pub fn new_repr(cfg: &Config, method: &str, as_parts: bool) -> Result<Exec, String> {
        Exec::new_calls(cfg, method, as_parts, &[])
    }

    /// As `new_repr`, but the builder is first configured with `pre` -- a sequence of earlier
    /// `with_gzip_level(Some(l))` / `with_chunk_size(None -> a dummy size)` calls whose values are
    /// then overridden by the final `with_chunk_size(cfg.chunk).with_gzip_level(cfg.level)`: only
    /// the last setting of each knob may matter.
    pub fn new_calls(cfg: &Config, method: &str, as_parts: bool, pre: &[Option<u32>]) -> Result<Exec, String> {
        Exec::new_calls_with(cfg, method, as_parts, pre, &[])
    }

    /// As `new_calls`, with other request headers next to Accept-Encoding.
    pub fn new_calls_with(cfg: &Config, method: &str, as_parts: bool, pre: &[Option<u32>], other: &[(&str, &str)]) -> Result<Exec, String> {
        let mut rb = http::Request::builder().method(method).uri("/");
        for (k, v) in other {
            rb = rb.header(*k, *v);
        }
        if let Some(a) = &cfg.accept {
            // a '\n' separates several Accept-Encoding header lines
            for line in a.split('\n') {
                rb = rb.header(
                    "accept-encoding",
                    http::HeaderValue::from_bytes(line.as_bytes()).map_err(|e| e.to_string())?,
                );
            }
        }
        let req = rb.body(()).map_err(|e| e.to_string())?;
        let (resp, w) = catch_unwind(AssertUnwindSafe(|| {
            let mut b = if as_parts {
                let (parts, _) = req.into_parts();
                http_serve::streaming_body(&parts)
            } else {
                http_serve::streaming_body(&req)
            };
            // `Some(u32::MAX)` is not a level: it asks for the two final calls in the other order
            let level_first = pre.contains(&Some(u32::MAX));
            for c in pre {
                b = match c {
                    Some(u32::MAX) => b,
                    Some(l) => b.with_gzip_level(*l),
                    None => b.with_chunk_size(12345),
                };
            }
            if level_first {
                b.with_gzip_level(cfg.level).with_chunk_size(cfg.chunk).build::<VBuf, HErr>()
            } else {
                b.with_chunk_size(cfg.chunk).with_gzip_level(cfg.level).build::<VBuf, HErr>()
            }
        }))
        .map_err(crate::drive::panic_msg)?;
        let resp_headers: Vec<(String, Vec<u8>)> = resp
            .headers()
            .iter()
            .map(|(k, v)| (k.as_str().to_string(), v.as_bytes().to_vec()))
            .collect();
        let gz = resp
            .headers()
            .get("content-encoding")
            .map(|v| v.as_bytes() == b"gzip")
            .unwrap_or(false);
        let (_parts, body) = resp.into_parts();
        Ok(Exec {
            cfg: cfg.clone(),
            resp_headers,
            gz,
            w: w.map(crate::drive::LeakOnUnwind::new),
            p: Some({
                let mut p = Poller::new(body);
                p.fresh = cfg.fresh_wakers;
                p.hop_threads = cfg.hop_threads;
                p
            }),
            parked: None,
            subject_panicked: false,
            accepted: Vec::new(),
            pos: 0,
            flushed_upto: 0,
            delivered: Vec::new(),
            gzs: gzip::GzStream::new(),
            term: Term::Live,
            body_gone: false,
            buffered: 0,
            since_flush: 0,
            writer_failed: false,
            accepted_after_db: 0,
            samples: Vec::new(),
            frames_seen: 0,
            terminal_seen: None,
            polls_after_terminal: 0,
            pending_since_abort: false,
            out: Vec::new(),
            log: Vec::new(),
        })
    }

    /// Number of plain bytes the consumer can decode from what was delivered so far.
    fn plain_len(&mut self) -> Option<usize> {
        if !self.gz {
            return Some(self.delivered.len());
        }
        if let Some(e) = &self.gzs.error {
            let e = e.clone();
            self.out.push(fnd(&["C09", "C17"], "gzip-undecodable", format!("delivered frames are not a gzip stream prefix: {e}")));
            return None;
        }
        Some(self.gzs.plain.len())
    }

    /// After a subject panic: leak both halves (their destructors would panic again on the
    /// poisoned mutex) and make every later operation of the history a no-op.
    fn poison(&mut self) {
        self.subject_panicked = true;
        if let Some(w) = self.w.take() {
            w.leak();
        }
        if let Some(mut p) = self.p.take() {
            p.dead = true;
            drop(p);
        }
    }

    /// Sequential half of C10: the consumer's last poll returned Pending (it is "parked" on the
    /// waker it presented then). If the writer operation that just returned made something
    /// observable -- flushed bytes not yet delivered, the end, an abort error -- that very waker
    /// must have been woken by now.
    fn check_woken(&mut self, what: &str) {
        let Some(at_park) = self.parked else { return };
        if self.body_gone || self.subject_panicked {
            return;
        }
        let Some(p) = self.p.as_ref() else { return };
        let now = p.last_waker_wakes();
        let total = p.wakes();
        let observable = match self.term {
            Term::Live => {
                if self.writer_failed {
                    false
                } else {
                    let have = if self.gz { self.gzs.plain.len() } else { self.delivered.len() };
                    self.flushed_upto > have
                }
            }
            _ => self.terminal_seen.is_none(),
        };
        if observable && now == at_park {
            self.out.push(fnd(&["C10"], "parked-consumer-not-woken", format!("the consumer's last poll returned Pending; {what} then made {} observable, but the waker presented at that poll was not woken ({} wake-up(s) went to other, stale wakers)", match self.term { Term::Live => "flushed data", Term::WriterDropped => "the end of the body", Term::Aborted => "the abort error" }, total.saturating_sub(now))));
            self.parked = None; // report once
        }
    }

    pub fn sample(&mut self) {
        let mut panicked = false;
        if let Some(p) = &self.p {
            match p.sample() {
                Ok(s) => self.samples.push((s, self.delivered.len(), self.terminal_seen.is_some(), self.frames_seen)),
                Err(m) => {
                    self.out.push(fnd(&["C12", "C13"], "hint-panic", format!("size_hint/is_end_stream panicked: {m}")));
                    panicked = true;
                }
            }
        }
        if panicked {
            self.poison();
        }
    }

    pub fn write_op(&mut self, n: usize, all: bool) {
        self.write_op_kind(n, if all { 1 } else { 0 })
    }

    /// kind: 0 = write, 1 = write_all, 2 = write_vectored (three slices), 3 = write_fmt
    pub fn write_op_kind(&mut self, n: usize, kind: u8) {
        let all = kind == 1 || kind == 3;
        let mut data = self.cfg.payload.slice(self.pos, n);
        if kind == 3 {
            // formatted text: the same positions, mapped into printable ASCII
            for b in data.iter_mut() {
                *b = b'a' + *b % 26;
            }
        }
        let Some(w) = self.w.as_mut() else { return };
        let was_live = self.term == Term::Live && !self.body_gone && !self.writer_failed;
        let r = catch_unwind(AssertUnwindSafe(|| {
            if kind == 3 {
                let (a, b) = data.split_at(n / 2);
                write!(w, "{}{}", std::str::from_utf8(a).unwrap(), std::str::from_utf8(b).unwrap()).map(|_| n)
            } else if kind == 2 {
                let (a, rest) = data.split_at(n / 3);
                let (b, c) = rest.split_at(n / 3);
                w.write_vectored(&[std::io::IoSlice::new(a), std::io::IoSlice::new(b), std::io::IoSlice::new(c)])
            } else if all {
                w.write_all(&data).map(|_| n)
            } else {
                w.write(&data)
            }
        }));
        let r = match r {
            Err(p) => {
                self.out.push(fnd(&["C08", "C09", "C11"], "write-panic", format!("write panicked: {}", crate::drive::panic_msg(p))));
                self.writer_failed = true;
                self.poison();
                return;
            }
            Ok(r) => r,
        };
        self.log.push(format!("{}({n})={:?}", if all { "write_all" } else { "write" }, r.as_ref().map_err(|e| e.kind())));
        match r {
            Ok(k) => {
                if k > n {
                    self.out.push(fnd(&["C08", "C09"], "write-overcount", format!("write of {n} bytes reported {k} accepted")));
                    return;
                }
                if k == 0 && n > 0 && was_live {
                    self.out.push(fnd(&["C08", "C09"], "write-zero", format!("write of {n} bytes to a live body accepted 0 bytes")));
                }
                if self.term == Term::Aborted || self.writer_failed {
                    self.out.push(fnd(&["C11"], "write-ok-after-failure", format!("write succeeded after {}", if self.term == Term::Aborted { "abort" } else { "an earlier writer error" })));
                }
                self.accepted.extend_from_slice(&data[..k]);
                self.pos += k;
                self.since_flush += k;
                if self.body_gone {
                    self.accepted_after_db += k;
                    if !self.gz && self.buffered + k >= self.cfg.chunk {
                        self.out.push(fnd(&["C11"], "chunk-completing-write-ok-after-body-drop", format!("body dropped, yet a write completing a {}-byte chunk returned Ok", self.cfg.chunk)));
                    }
                }
                if !self.gz {
                    self.buffered += k;
                    if self.buffered >= self.cfg.chunk {
                        // whole chunks are handed over (auto-flush); a write that accepts more than
                        // the current chunk keeps the tail in the writer
                        self.buffered %= self.cfg.chunk;
                    }
                }
            }
            Err(e) => {
                if was_live {
                    self.out.push(fnd(&["C08", "C09"], "write-error-live", format!("write to a live body failed: {e}")));
                }
                if all && e.kind() == std::io::ErrorKind::WriteZero && was_live {
                    self.out.push(fnd(&["C08", "C09"], "write-zero", "write_all failed with WriteZero on a live body".to_string()));
                }
                self.writer_failed = true;
            }
        }
    }

    pub fn flush_op(&mut self) {
        let Some(w) = self.w.as_mut() else { return };
        let was_live = self.term == Term::Live && !self.body_gone && !self.writer_failed;
        let r = match catch_unwind(AssertUnwindSafe(|| w.flush())) {
            Err(p) => {
                self.out.push(fnd(&["C08", "C09", "C11"], "flush-panic", format!("flush panicked: {}", crate::drive::panic_msg(p))));
                self.writer_failed = true;
                self.poison();
                return;
            }
            Ok(r) => r,
        };
        self.log.push(format!("flush={:?}", r.as_ref().map_err(|e| e.kind())));
        match r {
            Ok(()) => {
                if self.term == Term::Aborted || self.writer_failed {
                    self.out.push(fnd(&["C11"], "flush-ok-after-failure", format!("flush succeeded after {}", if self.term == Term::Aborted { "abort" } else { "an earlier writer error" })));
                }
                if self.body_gone {
                    let pending = if self.gz { self.since_flush > 0 } else { self.buffered > 0 };
                    if pending {
                        self.out.push(fnd(&["C11"], "flush-ok-after-body-drop", format!("body dropped, {} accepted byte(s) not yet handed over, yet flush returned Ok", if self.gz { self.since_flush } else { self.buffered })));
                    }
                }
                self.flushed_upto = self.accepted.len();
                self.buffered = 0;
                self.since_flush = 0;
            }
            Err(e) => {
                if was_live {
                    self.out.push(fnd(&["C08", "C09"], "flush-error-live", format!("flush on a live body failed: {e}")));
                }
                self.writer_failed = true;
            }
        }
    }

    /// One poll, judged against the model. Returns the observation.
    pub fn poll_op(&mut self) -> Option<Obs> {
        self.p.as_ref()?;
        self.sample();
        let p = self.p.as_mut().unwrap();
        let o = p.poll();
        self.parked = if o == Obs::Pending { Some(p.last_waker_wakes()) } else { None };
        if self.terminal_seen.is_some() {
            self.polls_after_terminal += 1;
            match &o {
                Obs::Panic(m) => self.out.push(fnd(&["C20", "C13"], "poll-panic-after-terminal", format!("poll after the terminal event panicked: {m}"))),
                o if o.data_len() > 0 => self.out.push(fnd(&["C20"], "data-after-terminal", "data frame after the terminal event".to_string())),
                _ => {}
            }
            return Some(o);
        }
        match &o {
            Obs::Real(v) => {
                if v.is_empty() {
                    self.out.push(fnd(&["C08", "C09"], "empty-frame", "the body yielded an empty data frame".to_string()));
                }
                self.frames_seen += 1;
                self.delivered.extend_from_slice(v);
                if !self.gz {
                    let d = self.delivered.len();
                    if d > self.accepted.len() || self.delivered[d - v.len()..] != self.accepted[d - v.len()..d] {
                        self.out.push(fnd(&["C08", "C11"], "not-a-prefix", format!("delivered bytes are not a prefix of the accepted bytes (delivered {d}, accepted {})", self.accepted.len())));
                    }
                } else {
                    let before = self.gzs.plain.len();
                    self.gzs.feed(v);
                    if self.plain_len().is_some() {
                        let plain = &self.gzs.plain;
                        if plain.len() > self.accepted.len() || plain[before..] != self.accepted[before..plain.len()] {
                            self.out.push(fnd(&["C09", "C11"], "gzip-not-a-prefix", format!("decoded bytes are not a prefix of the written bytes (decoded {}, written {})", plain.len(), self.accepted.len())));
                        }
                    }
                }
            }
            Obs::Virt(..) | Obs::OtherFrame => self.out.push(fnd(&["C08", "C09"], "strange-frame", "unexpected frame kind".to_string())),
            Obs::Pending => {
                if self.term == Term::Aborted {
                    self.pending_since_abort = true;
                    self.out.push(fnd(&["C11"], "pending-after-abort", "poll returned Pending although an abort error is pending (nobody will wake the consumer again)".to_string()));
                } else if self.term == Term::WriterDropped {
                    self.out.push(fnd(&["C08", "C09", "C10"], "pending-after-writer-drop", "poll returned Pending after the writer was dropped".to_string()));
                } else if let Some(plain_len) = self.plain_len() {
                    // availability: everything flushed must have been obtainable before Pending
                    if plain_len < self.flushed_upto {
                        self.out.push(fnd(&[if self.gz { "C09" } else { "C08" }], "flushed-not-available", format!("poll returned Pending with only {} of the {} bytes accepted before the last successful flush delivered", plain_len, self.flushed_upto)));
                    }
                }
            }
            Obs::End => {
                self.terminal_seen = Some(o.clone());
                match self.term {
                    Term::Live => self.out.push(fnd(&["C08", "C09"], "end-while-writer-alive", "body ended although the writer is alive".to_string())),
                    Term::Aborted => self.out.push(fnd(&["C11"], "clean-end-after-abort", "body ended cleanly after abort".to_string())),
                    Term::WriterDropped => {
                        if !self.gz {
                            if self.delivered != self.accepted {
                                self.out.push(fnd(&["C08"], "clean-end-incomplete", format!("clean end after {} bytes, {} were accepted", self.delivered.len(), self.accepted.len())));
                            }
                        } else if let Err(e) = self.gzs.verify_complete(&self.accepted) {
                            self.out.push(fnd(&["C09", "C17"], "gzip-member", format!("body after writer drop is not one valid gzip member of the written bytes: {e}")));
                        }
                    }
                }
            }
            Obs::Err(e) => {
                self.terminal_seen = Some(o.clone());
                if self.term != Term::Aborted {
                    self.out.push(fnd(&["C08", "C09"], "error-without-abort", format!("body reported {e:?} without abort")));
                } else if !matches!(e, HErr2::Abort(_)) {
                    self.out.push(fnd(&["C11"], "abort-error-replaced", format!("abort error arrived as {e:?}")));
                }
            }
            Obs::Panic(m) => {
                self.terminal_seen = Some(o.clone());
                self.out.push(fnd(&["C08", "C09", "C11", "C12", "C13"], "poll-panic", format!("poll panicked: {m}")));
                self.poison();
            }
        }
        Some(o)
    }

    /// Generous bound on the number of frames that can legitimately be queued: every frame is
    /// non-empty, and the coded size is at most the plain size plus gzip framing overhead.
    pub fn frame_horizon(&self) -> usize {
        4 * self.accepted.len() + 100_000
    }

    pub fn poll_until_pending(&mut self, max: usize) {
        for _ in 0..max {
            match self.poll_op() {
                None => return,
                Some(Obs::Pending) => return,
                Some(o) if o.is_terminal() => return,
                _ => {}
            }
        }
        self.out.push(fnd(&["C08", "C09", "C10"], "poll-horizon", "body kept producing frames beyond the horizon".to_string()));
    }

    pub fn abort_op(&mut self) {
        let Some(w) = self.w.as_mut() else { return };
        let was_live = self.term == Term::Live && !self.writer_failed;
        if let Err(p) = catch_unwind(AssertUnwindSafe(|| w.abort(HErr::Abort(7)))) {
            self.out.push(fnd(&["C11"], "abort-panic", format!("abort panicked: {}", crate::drive::panic_msg(p))));
            self.poison();
            return;
        }
        self.log.push("abort".into());
        if was_live && !self.body_gone {
            self.term = Term::Aborted;
        } else if was_live {
            self.writer_failed = true; // aborted into the void: later ops must fail
        }
    }

    pub fn drop_writer(&mut self) {
        if let Some(w) = self.w.take() {
            // drop inside catch_unwind; if the destructor panics the remains are leaked by
            // LeakOnUnwind (dropping them again while unwinding would abort the process)
            if let Err(p) = catch_unwind(AssertUnwindSafe(move || drop(w))) {
                self.out.push(fnd(&["C08", "C09"], "drop-panic", format!("dropping the writer panicked: {}", crate::drive::panic_msg(p))));
                self.subject_panicked = true;
            }
            self.log.push("drop_writer".into());
            if self.term == Term::Live && !self.writer_failed {
                self.term = Term::WriterDropped;
                self.flushed_upto = self.accepted.len();
            } else if self.term == Term::Live {
                // the writer had already failed (body gone): nothing more is promised
                self.term = Term::WriterDropped;
            }
        }
    }

    pub fn drop_body(&mut self) {
        if let Some(p) = self.p.take() {
            if let Err(pn) = catch_unwind(AssertUnwindSafe(|| drop(p))) {
                self.out.push(fnd(&["C11"], "body-drop-panic", format!("dropping the body panicked: {}", crate::drive::panic_msg(pn))));
            }
            self.log.push("drop_body".into());
            self.body_gone = true;
        }
    }

    pub fn apply(&mut self, op: Op) {
        if self.subject_panicked {
            return;
        }
        match op {
            Op::W(n) => {
                self.write_op(n, false);
                self.check_woken("a write");
            }
            Op::WA(n) => {
                self.write_op(n, true);
                self.check_woken("a write_all");
            }
            Op::WV(n) => {
                self.write_op_kind(n, 2);
                self.check_woken("a write_vectored");
            }
            Op::WF(n) => {
                self.write_op_kind(n, 3);
                self.check_woken("a write!");
            }
            Op::F => {
                self.flush_op();
                self.check_woken("a flush");
                // availability is checked by the polls that follow in the history or the epilogue
            }
            Op::P => {
                self.poll_op();
            }
            Op::PP => self.poll_until_pending(self.frame_horizon()),
            Op::FPP => {
                self.flush_op();
                self.check_woken("a flush");
                self.poll_until_pending(self.frame_horizon());
            }
            Op::A => {
                self.abort_op();
                self.check_woken("abort");
            }
            Op::DW => {
                self.drop_writer();
                self.check_woken("dropping the writer");
            }
            Op::DB => self.drop_body(),
        }
    }

    /// Canonical (reference-model state, observable subject state).
    fn canon(&self) -> u64 {
        let s = self.p.as_ref().and_then(|p| p.sample().ok());
        hash_of(&(
            self.term,
            self.body_gone,
            self.writer_failed,
            self.w.is_some(),
            self.buffered,
            (self.accepted.len() - self.flushed_upto.min(self.accepted.len())).min(3 * self.cfg.chunk),
            self.terminal_seen.as_ref().map(|o| o.kind()),
            s.map(|s| (s.lower, s.upper.is_some(), s.is_end)),
            self.p.as_ref().map(|p| p.wakes().min(4)),
        ))
    }

    /// Retrospective C12 check over all samples.
    pub fn check_samples(&mut self) {
        let clean = matches!(self.terminal_seen, Some(Obs::End));
        let total = self.delivered.len();
        let mut found = Vec::new();
        let frames_total = self.frames_seen;
        for (i, (s, at, after, frames_at)) in self.samples.iter().enumerate() {
            let rem = (total - at) as u64;
            if clean {
                if s.lower > rem {
                    found.push(fnd(&["C12"], "stream-hint-lower", format!("sample {i}: lower bound {} but only {rem} more bytes were delivered before the clean end", s.lower)));
                    break;
                }
                if let Some(u) = s.upper {
                    if u < rem {
                        found.push(fnd(&["C12"], "stream-hint-upper", format!("sample {i}: upper bound {u} but {rem} more bytes were delivered")));
                        break;
                    }
                }
            }
            if s.is_end {
                // nothing but a clean end may follow: no bytes, no error
                let later_bytes = rem > 0;
                let later_err = !after && matches!(self.terminal_seen, Some(Obs::Err(_)));
                // a queued chunk is a chunk, even an empty one: "never says so while chunks ...
                // are still undelivered"
                let later_frame = frames_total > *frames_at;
                if later_bytes || later_err || later_frame {
                    found.push(fnd(&["C12", "C11"], "stream-is-end-lie", format!("sample {i}: is_end_stream() was true, yet {} followed", if later_bytes { "data" } else if later_err { "an error" } else { "a (zero-length) data frame that was still queued" })));
                    break;
                }
            }
        }
        self.out.extend(found);
    }
}

/// Executes one history (plus the epilogue that drives it to its terminal event).
fn dedup_findings(v: Vec<Finding>) -> Vec<Finding> {
    let mut seen = std::collections::HashSet::new();
    v.into_iter().filter(|f| seen.insert(f.key.clone())).collect()
}

pub fn execute(cfg: &Config, ops: &[Op], extra_polls: usize) -> Outcome {
    let (c2, o2) = (cfg.clone(), ops.to_vec());
    let case: crate::report::CaseFn = Box::new(move || json!({"engine": "stream_mc", "config": c2.to_json(), "ops": o2.iter().map(|o| o.to_json()).collect::<Vec<_>>(), "extra_polls": extra_polls}));
    crate::report::watched(case, || execute_inner(cfg, ops, extra_polls))
}

fn execute_inner(cfg: &Config, ops: &[Op], extra_polls: usize) -> Outcome {
    let mut x = match Exec::new(cfg, "GET") {
        Ok(x) => x,
        Err(m) => {
            return Outcome {
                findings: vec![fnd(&["C08", "C09", "C17"], "build-panic", format!("streaming_body().build() panicked: {m}"))],
                states: vec![],
                labels: vec![],
                repr: String::new(),
                class: "build-panic".into(),
                body: None,
            }
        }
    };
    if x.w.is_none() {
        x.out.push(fnd(&["C08", "C15", "C17"], "no-writer-for-get", "streaming_body returned no writer for GET".to_string()));
    }
    let mut states = vec![x.canon()];
    let mut labels = Vec::new();
    for op in ops {
        x.apply(*op);
        states.push(x.canon());
        labels.push(hash_of(op));
    }
    // Epilogue: whatever is still alive is driven to its end, so that every history also
    // checks final delivery, the terminal event, and the retrospective hint claims.
    if x.w.is_some() && !x.body_gone {
        x.sample();
        if x.term != Term::Aborted {
            x.drop_writer();
            x.check_woken("dropping the writer");
        }
    }
    if x.p.is_some() {
        x.sample();
        let hz = x.frame_horizon();
        x.poll_until_pending(hz);
        if x.terminal_seen.is_none() && x.term != Term::Live {
            x.out.push(fnd(&["C08", "C09", "C11"], "no-terminal", "no terminal event although the writer is gone".to_string()));
        }
        for _ in 0..extra_polls {
            x.poll_op();
        }
        x.sample();
    } else if x.w.is_some() {
        // body gone, writer alive: two more writer operations must not succeed in handing
        // data over (checked inside write_op / flush_op).
        let c = x.cfg.chunk;
        x.write_op(c, false);
        x.flush_op();
        x.write_op(1, false);
        x.flush_op();
        if !x.writer_failed {
            x.out.push(fnd(&["C11"], "writer-never-told", format!("body dropped, then write({c}), flush, write(1), flush: no error was ever reported to the writer")));
        }
        x.drop_writer();
    }
    states.push(x.canon());
    labels.push(0);
    x.check_samples();
    let class = format!(
        "{:?}/{}/{}",
        x.term,
        x.terminal_seen.as_ref().map(|o| o.kind()).unwrap_or("none"),
        if x.body_gone { "body-dropped" } else { "body-kept" }
    );
    let repr = format!("{:?}|{:?}|{:?}|{:?}", x.log, x.delivered, x.samples, x.terminal_seen);
    let body = if matches!(x.terminal_seen, Some(Obs::End)) { Some(x.delivered.clone()) } else { None };
    Outcome {
        findings: dedup_findings(std::mem::take(&mut x.out)),
        states,
        labels,
        repr,
        class,
        body,
    }
}

// -------------------------------------------------------------------------------------------
// Enumeration

fn write_sizes(c: usize) -> Vec<usize> {
    if c <= 4 {
        (0..=3 * c).collect()
    } else {
        let mut v = vec![0, 1, c - 1, c, c + 1, 2 * c, 3 * c];
        v.dedup();
        v
    }
}

pub struct Alphabet {
    pub ops: Vec<Op>,
}

pub fn alphabet(c: usize, with_wa: bool, with_abort: bool, with_db: bool, sizes: Option<Vec<usize>>) -> Alphabet {
    let sizes = sizes.unwrap_or_else(|| write_sizes(c));
    let mut ops = Vec::new();
    for &n in &sizes {
        ops.push(Op::W(n));
    }
    if with_wa {
        for &n in &sizes {
            ops.push(Op::WA(n));
        }
    }
    ops.extend([Op::F, Op::FPP, Op::P, Op::PP]);
    if with_abort {
        ops.push(Op::A);
    }
    ops.push(Op::DW);
    if with_db {
        ops.push(Op::DB);
    }
    Alphabet { ops }
}

/// Is `op` worth exploring after `prefix`? (cut-offs of DESIGN 2.3)
fn enabled(prefix: &[Op], op: Op) -> bool {
    let w_gone = prefix.contains(&Op::DW);
    let b_gone = prefix.contains(&Op::DB);
    match op {
        Op::W(_) | Op::WA(_) | Op::WV(_) | Op::WF(_) | Op::F | Op::FPP | Op::A | Op::DW => {
            if w_gone {
                return false;
            }
            if b_gone && op == Op::FPP {
                return false;
            }
            if b_gone {
                // at most 3 writer operations after the body is gone
                let since = prefix.iter().rev().take_while(|o| **o != Op::DB).count();
                return since < 3;
            }
            true
        }
        Op::P | Op::PP | Op::DB => {
            if b_gone {
                return false;
            }
            if w_gone {
                // after the writer is gone: at most 3 consumer operations
                let since = prefix.iter().rev().take_while(|o| **o != Op::DW).count();
                return since < 3;
            }
            true
        }
    }
}

pub struct Sweep<'a> {
    pub prop: &'a str,
    pub cfg: Config,
    pub alpha: Alphabet,
    pub depth: usize,
    pub extra_polls: usize,
    pub shallow: std::sync::Mutex<std::collections::HashSet<u64>>,
}

fn report(prop: &str, cfg: &Config, ops: &[Op], extra_polls: usize, o: &Outcome, st: &mut Stats, order: u64) {
    let mut seen: Vec<&str> = Vec::new();
    let mut checked = false;
    for f in &o.findings {
        if !f.props.contains(&prop) || seen.contains(&f.key.as_str()) {
            continue;
        }
        seen.push(&f.key);
        if !checked {
            // determinism: the same history must give the same observation again
            let again = execute(cfg, ops, extra_polls);
            if again.repr != o.repr {
                // The harness is deterministic (on the unchanged tree this never fires), every
                // history builds its own writer and body: a history whose outcome depends on what
                // ran before it in this process means the SUBJECT keeps state across bodies (a
                // pool, a cache, a static). That is reported as the finding it is, not as a
                // machinery failure.
                st.violation(order, format!("{}:depends-on-earlier-bodies", f.key), format!("{} -- and re-running the same history in the same process gives another result: streaming_body keeps state between bodies", f.msg), || {
                    json!({"engine": "stream_mc", "config": cfg.to_json(), "ops": ops.iter().map(|o| o.to_json()).collect::<Vec<_>>(), "extra_polls": extra_polls, "note": "history-dependent: replaying this history alone may not reproduce it"})
                });
                return;
            }
            checked = true;
        }
        st.violation(order, f.key.clone(), f.msg.clone(), || {
            json!({"engine": "stream_mc", "config": cfg.to_json(), "ops": ops.iter().map(|o| o.to_json()).collect::<Vec<_>>(), "extra_polls": extra_polls})
        });
    }
}

fn dfs(sw: &Sweep, hist: &mut Vec<Op>, st: &mut Stats, order: &mut u64, bodies: &mut Option<&mut Vec<Vec<u8>>>) {
    let complete = hist.len() == sw.depth || !sw.alpha.ops.iter().any(|op| enabled(hist, *op));
    if complete {
        *order += 1;
        let o = execute(&sw.cfg, hist, sw.extra_polls);
        st.evaluations += 1;
        for (i, s) in o.states.iter().enumerate() {
            st.states.insert(*s);
            if i > 0 {
                st.transition(o.states[i - 1], o.labels[i - 1], *s);
            }
        }
        st.outcome(o.class.clone());
        st.nontrivial(&(&sw.cfg, &hist));
        st.sample(2, || json!({"config": sw.cfg.to_json(), "ops": hist.iter().map(|o| o.to_json()).collect::<Vec<_>>(), "outcome": o.class}));
        if let (Some(b), Some(body)) = (bodies.as_mut(), &o.body) {
            if b.len() < 4096 {
                b.push(body.clone());
            }
        }
        report(sw.prop, &sw.cfg, hist, sw.extra_polls, &o, st, *order);
        return;
    }
    for op in &sw.alpha.ops {
        if enabled(hist, *op) {
            if crate::report::wall_cap_hit() {
                crate::report::note_skipped(1);
                return;
            }
            hist.push(*op);
            dfs(sw, hist, st, order, bodies);
            hist.pop();
        }
    }
}

/// Explores every history of `depth` ops for one configuration, in parallel over the first
/// two operations.
pub fn sweep(prop: &str, cfg: &Config, alpha: Alphabet, depth: usize, extra_polls: usize) -> Stats {
    let sw = Sweep {
        prop,
        cfg: cfg.clone(),
        alpha,
        depth,
        extra_polls,
        shallow: Default::default(),
    };
    let firsts: Vec<Vec<Op>> = {
        let mut v = Vec::new();
        for a in &sw.alpha.ops {
            if !enabled(&[], *a) {
                continue;
            }
            if depth == 1 {
                v.push(vec![*a]);
                continue;
            }
            let mut any = false;
            for b in &sw.alpha.ops {
                if enabled(&[*a], *b) {
                    v.push(vec![*a, *b]);
                    any = true;
                }
            }
            if !any {
                v.push(vec![*a]);
            }
        }
        v
    };
    par_for(firsts.len() as u64, threads(), |i, st| {
        let mut h = firsts[i as usize].clone();
        let mut order = i << 40;
        dfs(&sw, &mut h, st, &mut order, &mut None);
    })
}

fn depth_states(prop: &str, cfg: &Config, mk: &dyn Fn() -> Alphabet, depth: usize, extra: usize) -> (Stats, usize) {
    // states reachable with depth-1 operations, for the saturation argument
    let shallow = if depth > 1 { sweep(prop, cfg, mk(), depth - 1, extra).states.len() } else { 0 };
    (sweep(prop, cfg, mk(), depth, extra), shallow)
}

pub fn run_c08(run: &mut Run) -> Stats {
    let tier = run.tier;
    let plan: Vec<(usize, usize)> = tier.pick(
        vec![(1, 5), (2, 5), (3, 4), (4, 4), (7, 4), (4096, 4), (65536, 3)],
        vec![(1, 6), (2, 6), (3, 5), (4, 5), (7, 5), (4096, 5), (65536, 4)],
    );
    run.rule = "every history over {write(n), write_all(n), flush, flush-then-poll-until-pending, poll, poll-until-pending, drop-writer} (polls present one waker throughout, and in a second set of configurations a different waker at every poll) (n in 0..=3c for chunk size c <= 4, {0,1,c-1,c,c+1,2c,3c} otherwise) up to the stated depth, each followed by an epilogue (drop writer, drain, 2 extra polls); identity coding both without Accept-Encoding and with 'gzip' at level 0. Reference model = byte vector + cursors; checked after every operation: write returns 1..=n on a live body, delivered bytes are a prefix of accepted bytes, frames non-empty, Pending only when everything accepted before the last successful flush has been delivered, clean end after writer drop with delivered == accepted. plus 'long and narrow' histories: a unit of 1-3 operations ({write(n)}, {write_all(n)}, {write(n), flush}, {write_all(n), flush, drain}, {write(n), poll}, {write_all(n), flush, poll}, {write_all(n), write_all(1), flush}) repeated k times, k up to 100 (thorough: every k up to 130, then 255..257, 300, 1000), chunk sizes {4096, 1000, 65536, 3}, n in {1, c-1, c, c+1, 2c+1, 10007}. non-trivial = distinct (config, history)".into();
    run.bounds = json!({"chunk_size:depth": plan.iter().map(|(c, d)| format!("{c}:{d}")).collect::<Vec<_>>(), "extra_polls": 2});
    let mut total = Stats::new();
    let mut sat = Vec::new();
    for (c, d) in plan {
        for accept in [None, Some("gzip".to_string())] {
            if accept.is_some() && c > 4 {
                continue;
            }
            let cfg = Config { chunk: c, level: if accept.is_some() { 0 } else { 6 }, accept: accept.clone(), payload: Payload::Rand, fresh_wakers: false, hop_threads: false };
            let (st, shallow) = depth_states(&run.prop, &cfg, &|| alphabet(c, true, false, false, None), d, 2);
            sat.push(json!({"chunk": c, "accept_encoding": accept, "depth": d, "histories": st.evaluations, "states_at_depth": st.states.len(), "states_at_depth_minus_1": shallow}));
            total.merge(st);
        }
    }
    // the same histories with a different waker at every poll (the reader's clone_from path)
    for (c, d) in tier.pick(vec![(1usize, 4usize), (2, 4), (4096, 3)], vec![(1, 5), (2, 5), (4, 4), (4096, 4)]) {
        let cfg = Config { chunk: c, level: 6, accept: None, payload: Payload::Rand, fresh_wakers: true, hop_threads: false };
        let mut sizes = vec![0, 1, c, c + 1];
        sizes.dedup();
        let st = sweep(&run.prop, &cfg, alphabet(c, true, false, false, Some(sizes)), d, 2);
        sat.push(json!({"chunk": c, "fresh_waker_per_poll": true, "depth": d, "histories": st.evaluations, "states_at_depth": st.states.len()}));
        total.merge(st);
    }
    run.extra.insert("per_config".into(), json!(sat));
    let lr = long_runs(&run.prop, tier, None, 2);
    run.extra.insert("long_run_histories".into(), json!(lr.evaluations));
    total.merge(lr);
    total
}

pub fn run_c11_seq(run: &mut Run) -> Stats {
    let tier = run.tier;
    let plan: Vec<(usize, usize)> = tier.pick(vec![(1, 4), (2, 4), (3, 4), (4096, 3)], vec![(1, 5), (2, 5), (3, 5), (4, 4), (4096, 4)]);
    run.rule = "every history over {write(n), flush, flush-then-poll-until-pending, poll, poll-until-pending, abort, drop-writer, drop-body} up to the stated depth (abort / body-drop at every position), raw writer (no Accept-Encoding) and gzip writer (levels 1, 6), each followed by an epilogue: after abort drain + 2 polls; after body drop write(c), flush, write(1), flush must report an error. Oracle: after abort the next terminal event is Err(the abort error), never a clean end or Pending, delivered bytes a prefix of the written ones, is_end_stream false until the error was delivered, later write/flush fail; after body drop flush with unflushed bytes and every chunk-completing write fail, everything after the first error fails; plus a queue-release measurement (byte-counting allocator). non-trivial = distinct (config, history) containing abort or drop-body".into();
    run.bounds = json!({"chunk_size:depth": plan.iter().map(|(c, d)| format!("{c}:{d}")).collect::<Vec<_>>()});
    let mut total = Stats::new();
    for (c, d) in plan {
        let cfg = Config { chunk: c, level: 6, accept: None, payload: Payload::Rand, fresh_wakers: c % 2 == 0, hop_threads: false };
        total.merge(sweep(&run.prop, &cfg, alphabet(c, false, true, true, None), d, 2));
    }
    // gzip writer
    for (c, level, d) in tier.pick(vec![(7usize, 6u32, 3usize), (1, 1, 3)], vec![(7, 6, 4), (1, 1, 4), (4096, 9, 4)]) {
        let cfg = Config { chunk: c, level, accept: Some("gzip".into()), payload: Payload::Rand, fresh_wakers: c == 1, hop_threads: false };
        total.merge(sweep(&run.prop, &cfg, alphabet(c, false, true, true, Some(vec![0, 1, 40, 300])), d, 2));
    }
    total.merge(release_check(&run.prop));
    // concurrent half: every interleaving of producer programs containing abort, and of
    // consumers that drop the body after j frames, under the controlled scheduler
    let seq = total.evaluations;
    let mut r2 = Run::new(&run.prop, "sched_mc", tier);
    let conc = crate::sched_mc::run_c11_conc(&mut r2);
    run.extra.insert("sequential_histories".into(), json!(seq));
    run.extra.insert("concurrent_schedules".into(), json!(conc.evaluations));
    if let Some(f) = r2.extra.get("families") {
        run.extra.insert("concurrent_families".into(), f.clone());
    }
    if !r2.exhaustive {
        run.exhaustive = false;
    }
    total.merge(conc);
    total
}

// -------------------------------------------------------------------------------------------
// C09

pub fn run_c09(run: &mut Run) -> Stats {
    let tier = run.tier;
    let chunks: Vec<usize> = tier.pick(vec![1, 2, 7, 19, 4096], vec![1, 2, 3, 7, 19, 4096, 65536]);
    let levels: Vec<u32> = (1..=9).collect();
    let classes: Vec<(Payload, Vec<usize>)> = vec![
        (Payload::Rand, vec![0, 1, 100, 300]),
        (Payload::Rep, vec![0, 1, 1666, 5000]),
        (Payload::Mixed, tier.pick(vec![0, 1, 2000], vec![0, 1, 23_333, 70_000])),
    ];
    // large incompressible writes: the encoder's 32 KiB output buffer fills and `write` returns
    // short counts, which the BodyWriter must pass on faithfully
    let big: Vec<usize> = vec![1, 40_000, 200_000];
    let depth = tier.pick(3, 4);
    run.rule = format!("every history over {{write(n), flush, flush-then-poll-until-pending, poll, poll-until-pending, drop-writer}} of depth {depth} (+ epilogue) with Accept-Encoding: gzip, levels 1..9 x chunk sizes x payload classes (incompressible / 'a'-run / mixed; n in {{0, 1, 1/3, all}} of the class size), plus large incompressible write / write_all calls of 40 000 and 200 000 bytes (the encoder then reports short writes) at depth 3; oracle = independent RFC 1952 parser + own CRC-32 + miniz_oxide streaming inflater fed only the frames delivered so far: at every Pending after a successful flush everything written before it decodes (also probed by a 'ramp': T incompressible bytes in 500-byte writes then flush, for every T up to 140 000 (thorough 280 000) and every level); after writer drop exactly one member, CRC and ISIZE match the model's bytes, nothing trails; frames non-empty. non-trivial = distinct (config, history)");
    run.bounds = json!({"levels": levels, "chunk_sizes": chunks, "depth": depth, "payload_classes": 3});
    let mut cfgs = Vec::new();
    for &c in &chunks {
        for &l in &levels {
            for (p, sizes) in &classes {
                if *p == Payload::Mixed && !(l == 1 || l == 6 || l == 9) {
                    continue;
                }
                cfgs.push((Config { chunk: c, level: l, accept: Some("gzip".into()), payload: *p, fresh_wakers: l % 2 == 0, hop_threads: false }, sizes.clone()));
            }
        }
    }
    for &c in &tier.pick(vec![7usize, 512, 4096, 65536], vec![1, 7, 512, 4096, 16384, 65536]) {
        for &l in &tier.pick(vec![1u32, 6], vec![1, 2, 6, 9]) {
            cfgs.push((Config { chunk: c, level: l, accept: Some("gzip".into()), payload: Payload::Rand, fresh_wakers: false, hop_threads: false }, big.clone()));
        }
    }
    run.extra.insert("configs".into(), json!(cfgs.len()));
    let prop = run.prop.clone();
    let dump = tier == Tier::Thorough;
    let bodies = std::sync::Mutex::new(Vec::<Vec<u8>>::new());
    let total = par_for(cfgs.len() as u64, threads(), |i, st| {
        let (cfg, sizes) = &cfgs[i as usize];
        let with_wa = sizes.iter().any(|n| *n >= 40_000);
        let d = if with_wa { depth.min(3) } else { depth };
        let sw = Sweep { prop: &prop, cfg: cfg.clone(), alpha: alphabet(cfg.chunk, with_wa, false, false, Some(sizes.clone())), depth: d, extra_polls: 1, shallow: Default::default() };
        let mut order = i << 40;
        let mut local: Vec<Vec<u8>> = Vec::new();
        let mut h = Vec::new();
        {
            let mut b = if dump { Some(&mut local) } else { None };
            dfs(&sw, &mut h, st, &mut order, &mut b);
        }
        if dump {
            let mut g = bodies.lock().unwrap();
            for b in local {
                if g.len() < 20_000 {
                    g.push(b);
                }
            }
        }
    });
    // "Ramp" family: for every level, T bytes of incompressible data written in 500-byte pieces,
    // then flush and drain, for every T up to 140 000 in steps of 500 -- i.e. a flush at every
    // fill level of the encoder's internal buffers (the flate2 sync-flush loss only shows in a
    // narrow window of T that depends on the level).
    let step = 500usize;
    let tmax = tier.pick(140_000usize, 280_000);
    let ramp_levels: Vec<u32> = (1..=9).collect();
    let ramp: Vec<(u32, usize)> = ramp_levels.iter().flat_map(|l| (1..=tmax / step).map(move |k| (*l, k * step))).collect();
    run.extra.insert("ramp_histories".into(), json!(ramp.len()));
    let mut total = total;
    total.merge(par_for(ramp.len() as u64, threads(), |i, st| {
        let (level, t) = ramp[i as usize];
        let cfg = Config { chunk: 4096, level, accept: Some("gzip".into()), payload: Payload::Rand, fresh_wakers: false, hop_threads: false };
        let mut ops: Vec<Op> = vec![Op::WA(step); t / step];
        ops.push(Op::F);
        ops.push(Op::PP);
        let o = execute(&cfg, &ops, 1);
        st.evaluations += 1;
        for (k, s) in o.states.iter().enumerate() {
            st.states.insert(*s);
            if k > 0 {
                st.transition(o.states[k - 1], o.labels[k - 1], *s);
            }
        }
        st.outcome(o.class.clone());
        st.nontrivial(&(level, t, "ramp"));
        report(&prop, &cfg, &ops, 1, &o, st, (1 << 50) + i);
    }));
    for l in tier.pick(vec![6u32], vec![1, 6, 9]) {
        let lr = long_runs(&prop, Tier::Quick, Some(l), 1);
        total.merge(lr);
    }
    if dump {
        // Cross-check of the decoder (not the deciding step): distinct complete bodies are
        // written out for `python3 -c 'import zlib'` (C zlib) to re-decode; see ./check.
        let mut g = bodies.into_inner().unwrap();
        g.sort();
        g.dedup();
        let mut f = Vec::new();
        for b in g.iter() {
            f.extend_from_slice(&(b.len() as u32).to_le_bytes());
            f.extend_from_slice(b);
        }
        let _ = std::fs::write(format!("{}/target/c09-bodies.bin", crate::report::scratch_root()), f);
        run.extra.insert("distinct_bodies_dumped_for_zlib_crosscheck".into(), json!(g.len()));
    }
    total
}

// -------------------------------------------------------------------------------------------
// queue release after body drop (C11), measured with the byte-counting allocator

pub fn release_check(prop: &str) -> Stats {
    let mut st = Stats::new();
    let mut order = 1u64 << 62;
    for gz in [false, true] {
        for c in [64usize, 4096] {
            for consume in [0usize, 1, 5] {
                order += 1;
                let mut rb = http::Request::builder().method("GET").uri("/");
                if gz {
                    rb = rb.header("accept-encoding", "gzip");
                }
                let req = rb.body(()).unwrap();
                let (resp, w) = http_serve::streaming_body(&req).with_chunk_size(c).with_gzip_level(6).build::<VBuf, HErr>();
                let mut w = w.expect("writer for GET");
                let mut p = Poller::new(resp.into_body());
                let base = crate::alloc::live_bytes();
                let total = 64 * c.max(1024);
                {
                    let data = Payload::Rand.slice(0, total);
                    let _ = w.write_all(&data);
                    let _ = w.flush();
                }
                for _ in 0..consume {
                    drop(p.poll());
                }
                let queued = crate::alloc::live_bytes() - base;
                drop(p);
                // the first writer operations after the drop; at least one must fail (checked by
                // the history sweep) -- here only the memory is measured.
                let chunk = Payload::Rand.slice(total, c);
                let r1 = w.write(&chunk).map(|_| ());
                let r2 = w.flush();
                let r3 = w.write(&chunk).map(|_| ());
                let r4 = w.flush();
                drop(chunk);
                let after = crate::alloc::live_bytes() - base;
                let told = r1.is_err() || r2.is_err() || r3.is_err() || r4.is_err();
                drop(w);
                let slack = (2 * c + 48 * 1024) as isize;
                st.evaluations += 1;
                st.nontrivial(&(gz, c, consume));
                let s0 = st.state(&("release-queued", gz, c, consume));
                let s1 = st.state(&("release-after-drop", gz, c, consume, after <= slack, told));
                st.transition(s0, 1, s1);
                st.outcome(format!("release/{}", if after <= slack { "released" } else { "retained" }));
                st.count("release_cases", 1);
                st.sample(8, || json!({"release_measurement": {"gzip": gz, "chunk": c, "frames_consumed": consume, "live_queue_bytes_before_drop": queued, "live_bytes_after_drop_and_two_writer_ops": after, "allowance": slack}}));
                if prop == "C11" {
                    if after > slack {
                        let msg = format!("{} writer, chunk {c}, {consume} frames consumed: {queued} bytes were live in the queue before the body was dropped; after the drop, write, flush, write, flush, {after} bytes are still live (allowance {slack})", if gz { "gzip" } else { "raw" });
                        st.violation(order, "queue-not-released".into(), msg, || json!({"engine": "stream_release", "gzip": gz, "chunk": c, "consume": consume}));
                    }
                    if !told {
                        st.violation(order, "writer-never-told".into(), format!("{} writer, chunk {c}: body dropped, then write({c}), flush, write({c}), flush all returned Ok", if gz { "gzip" } else { "raw" }), || json!({"engine": "stream_release", "gzip": gz, "chunk": c, "consume": consume}));
                    }
                }
            }
        }
    }
    st
}

pub fn replay(case: &serde_json::Value, prop: &str) -> i32 {
    if case["engine"] == "stream_release" {
        let st = release_check(prop);
        for (k, v) in &st.violations {
            println!("VIOLATED {k}: {}", v.msg);
        }
        return if st.violations.is_empty() { 0 } else { 1 };
    }
    let cfg = Config::from_json(&case["config"]);
    let ops: Vec<Op> = case["ops"].as_array().expect("ops").iter().map(Op::from_json).collect();
    let extra = case["extra_polls"].as_u64().unwrap_or(2) as usize;
    let a = execute(&cfg, &ops, extra);
    let b = execute(&cfg, &ops, extra);
    if a.repr != b.repr {
        eprintln!("MACHINERY ERROR: two replays of the same history differ");
        return 2;
    }
    println!("config {:?}\nops {:?}\noutcome {}\ntrace {}", cfg, ops, a.class, &a.repr[..a.repr.len().min(2000)]);
    let mut bad = false;
    for f in &a.findings {
        let mine = f.props.contains(&prop);
        println!("{} [{}] {}: {}", if mine { "VIOLATED" } else { "(other property)" }, f.props.join(","), f.key, f.msg);
        bad |= mine;
    }
    if bad {
        1
    } else {
        println!("no violation of {prop} on this history");
        0
    }
}


/// "Long and narrow" histories: a unit of one to three operations repeated k times (k up to
/// several hundred), for realistic chunk sizes. They reach what the depth-bounded product cannot:
/// the 7th and later operation, dozens to hundreds of queued chunks, the n-th flush, totals of
/// megabytes -- at linear instead of exponential cost.
pub fn long_runs(prop: &str, tier: Tier, gzip_level: Option<u32>, extra_polls: usize) -> Stats {
    let chunks: Vec<usize> = vec![4096, 1000, 65_536, 3];
    let mut cases: Vec<(Config, Vec<Op>)> = Vec::new();
    for &c in &chunks {
        let sizes: Vec<usize> = if c == 3 { vec![1, 2, 3, 4, 7, 10] } else { vec![1, 7, 250, c - 1, c, c + 1, 2 * c + 1, 10_007] };
        let ks: Vec<usize> = tier.pick(vec![1, 2, 3, 4, 5, 6, 7, 8, 9, 10, 15, 16, 17, 31, 32, 33, 64, 65, 100], (1..=130).chain([255, 256, 257, 300, 1000]).collect());
        for &n in &sizes {
            let units: Vec<Vec<Op>> = vec![
                vec![Op::W(n)],
                vec![Op::WA(n)],
                vec![Op::W(n), Op::F],
                vec![Op::WA(n), Op::F, Op::PP],
                vec![Op::W(n), Op::P],
                vec![Op::WA(n), Op::F, Op::P],
                vec![Op::WA(n), Op::WA(1), Op::F],
            ];
            for u in &units {
                // small writes are repeated much longer (thousands of calls, tens of kilobytes)
                let mut ks_n = ks.clone();
                if n <= 300 {
                    ks_n.extend([300usize, 1000, 5000].iter().filter(|k| **k * n <= 120_000));
                    ks_n.sort();
                    ks_n.dedup();
                }
                for &k in &ks_n {
                    if k * n > 6_000_000 {
                        continue;
                    }
                    let mut ops = Vec::with_capacity(k * u.len());
                    for _ in 0..k {
                        ops.extend_from_slice(u);
                    }
                    let (accept, level, payload) = match gzip_level {
                        Some(l) => (Some("gzip".to_string()), l, if n % 2 == 0 { Payload::Rep } else { Payload::Rand }),
                        None => (None, 6, Payload::Rand),
                    };
                    let cfg = Config { chunk: c, level, accept, payload, fresh_wakers: c % 2 == 1, hop_threads: false };
                    // the same run followed by "flush, poll until Pending, one more byte": with the
                    // writer still alive, everything flushed must come out before a Pending
                    if !u.contains(&Op::PP) && (k <= 10 || k % 16 <= 1 || k >= 64) {
                        let mut t = ops.clone();
                        t.extend([Op::F, Op::PP, Op::W(1), Op::P]);
                        cases.push((cfg.clone(), t));
                    }
                    cases.push((cfg, ops));
                }
            }
        }
    }
    par_for(cases.len() as u64, threads(), |i, st| {
        let (cfg, ops) = &cases[i as usize];
        let o = execute(cfg, ops, extra_polls);
        st.evaluations += 1;
        for (k, s) in o.states.iter().enumerate() {
            st.states.insert(*s);
            if k > 0 {
                st.transition(o.states[k - 1], o.labels[k - 1], *s);
            }
        }
        st.outcome(o.class.clone());
        st.nontrivial(&(cfg, ops.len(), ops.first(), "long-run"));
        st.count("long_run_histories", 1);
        report(prop, cfg, ops, extra_polls, &o, st, (1 << 52) + i);
    })
}

/// The streaming "zoo": a fixed set of history shapes (write sizes relative to the chunk size)
/// against every combination of chunk size {1, 2, 3, 7, 8, 19, 255, 256, 512, 1000, 4096, 16384,
/// 65536} x coding {identity, gzip level 0 / 1 / 6 / 9} x waker discipline {same, fresh per poll} x
/// payload {incompressible, 'a'-run}. The depth-bounded products above take a few chunk sizes and
/// levels each; this crosses all of them with histories that contain every operation (also abort
/// and body drop), so that a defect which needs one particular chunk size, level or waker
/// discipline *and* a shape some other sweep has is still met. Findings are filtered by `prop`.
pub fn stream_zoo(prop: &str, tier: Tier) -> Stats {
    let chunks: Vec<usize> = vec![1, 2, 3, 7, 8, 19, 255, 256, 512, 1000, 4096, 16_384, 65_536];
    let mut cfgs: Vec<Config> = Vec::new();
    for &c in &chunks {
        for (accept, level) in [(None, 6u32), (Some("gzip"), 0), (Some("gzip"), 1), (Some("gzip"), 6), (Some("gzip"), 9)] {
            for fresh in [false, true] {
                for payload in [Payload::Rand, Payload::Rep] {
                    if tier == Tier::Quick && payload == Payload::Rep && (accept.is_none() || level == 0) {
                        continue; // the payload class only matters to the encoder
                    }
                    cfgs.push(Config { chunk: c, level, accept: accept.map(|s| s.to_string()), payload, fresh_wakers: fresh, hop_threads: false });
                    // two chunk sizes also with every poll on a freshly spawned thread
                    if (c == 2 || c == 4096) && payload == Payload::Rand && (level == 6 || level == 0) {
                        cfgs.push(Config { chunk: c, level, accept: accept.map(|s| s.to_string()), payload, fresh_wakers: fresh, hop_threads: true });
                    }
                }
            }
        }
    }
    let shapes = |c: usize, s: usize| -> Vec<Vec<Op>> {
        vec![
            vec![Op::DW],
            vec![Op::F, Op::DW],
            vec![Op::WA(s), Op::DW],
            vec![Op::WA(s), Op::F, Op::DW],
            vec![Op::WA(s), Op::FPP, Op::WA(s), Op::DW, Op::PP],
            vec![Op::W(s), Op::W(0), Op::FPP, Op::W(1), Op::DW],
            vec![Op::F, Op::WA(s), Op::FPP, Op::WA(c), Op::F, Op::PP],
            vec![Op::P, Op::WA(s), Op::F, Op::P, Op::P, Op::WA(1), Op::FPP, Op::DW],
            vec![Op::P, Op::P, Op::WA(s), Op::FPP, Op::P, Op::DW],
            vec![Op::WA(1), Op::WA(s), Op::WA(1), Op::DW],
            vec![Op::WV(s), Op::WV(s), Op::F, Op::WV(3), Op::DW],
            vec![Op::WA(1), Op::WV(s), Op::FPP, Op::WV(0), Op::DW],
            vec![Op::WF(s), Op::WF(3), Op::FPP, Op::WF(s), Op::DW],
            vec![Op::WA(s), Op::A, Op::P, Op::W(1), Op::F],
            vec![Op::WA(s), Op::FPP, Op::A, Op::F, Op::P],
            vec![Op::P, Op::A],
            vec![Op::WA(s), Op::F, Op::A, Op::PP],
            vec![Op::WA(s), Op::DB, Op::W(c), Op::F],
            vec![Op::WA(s), Op::F, Op::P, Op::DB, Op::F, Op::W(1)],
            vec![Op::DB, Op::WA(s), Op::F],
            vec![Op::WA(s), Op::FPP, Op::DB, Op::WA(1), Op::F],
            // two flushes (or a flush and the drop) without a poll in between whose writes add up
            // to exactly one chunk, one less, one more
            vec![Op::WA(s), Op::F, Op::WA(c.saturating_sub(s)), Op::F, Op::DW],
            vec![Op::WA(s), Op::F, Op::W(c.saturating_sub(s)), Op::DW],
            vec![Op::WA(s), Op::F, Op::WA((c + 1).saturating_sub(s)), Op::F, Op::WA(1), Op::DW],
            vec![Op::WA(s), Op::F, Op::WA(c.saturating_sub(s + 1)), Op::F, Op::P, Op::WA(1), Op::F, Op::DW],
        ]
    };
    let mut cases: Vec<(Config, Vec<Op>)> = Vec::new();
    for cfg in &cfgs {
        let c = cfg.chunk;
        let mut sizes = vec![1usize, c.saturating_sub(1).max(1), c, c + 1, 3 * c + 1];
        if c <= 1000 && !cfg.hop_threads {
            sizes.push(70_001); // far beyond the chunk and the encoder's buffers
        }
        sizes.sort();
        sizes.dedup();
        for s in sizes {
            for h in shapes(c, s) {
                cases.push((cfg.clone(), h));
            }
        }
    }
    let mut total = par_for(cases.len() as u64, threads(), |i, st| {
        let (cfg, ops) = &cases[i as usize];
        let o = execute(cfg, ops, 2);
        st.evaluations += 1;
        for (k, s) in o.states.iter().enumerate() {
            st.states.insert(*s);
            if k > 0 {
                st.transition(o.states[k - 1], o.labels[k - 1], *s);
            }
        }
        st.outcome(o.class.clone());
        st.nontrivial(&(cfg, ops, "zoo"));
        st.count("stream_zoo_histories", 1);
        report(prop, cfg, ops, 2, &o, st, (1 << 54) + i);
    });
    // Histories of TWO bodies in one process: a first body that ends badly (aborted, or dropped by
    // the consumer, with chunks still unread) and then an ordinary second one, which is judged. A
    // body must not inherit anything from an earlier one (recycled buffers, cached state).
    let mut st = Stats::new();
    let mut k = 0u64;
    for c in [4usize, 1024, 4096, 65_536] {
        for first in [vec![Op::WA(2 * c + 1), Op::F, Op::A], vec![Op::WA(2 * c), Op::F, Op::DB, Op::W(1), Op::F], vec![Op::WA(c + 1), Op::F, Op::P, Op::A], vec![Op::WA(3 * c), Op::DW, Op::P, Op::DB]] {
            for (accept, level) in [(None, 6u32), (Some("gzip"), 6), (Some("gzip"), 1)] {
                let cfg_a = Config { chunk: c, level: 6, accept: None, payload: Payload::Rand, fresh_wakers: false, hop_threads: false };
                let cfg_a2 = Config { chunk: c, level: 6, accept: Some("gzip".into()), payload: Payload::Rep, fresh_wakers: false, hop_threads: false };
                let cfg_b = Config { chunk: c, level, accept: accept.map(|s| s.to_string()), payload: Payload::Rand, fresh_wakers: false, hop_threads: false };
                let second = vec![Op::WA(300), Op::FPP, Op::WA(c + 7), Op::DW];
                for a in [&cfg_a, &cfg_a2] {
                    let _ = execute(a, &first, 1);
                    let o = execute(&cfg_b, &second, 2);
                    k += 1;
                    st.evaluations += 2;
                    st.nontrivial(&(c, &first, accept, level, a.accept.is_some(), "two-bodies"));
                    st.count("two_body_histories", 1);
                    st.outcome(format!("second-body/{}", o.class));
                    // findings of the second body (its replay, run alone, may not reproduce them)
                    for f in &o.findings {
                        if f.props.contains(&prop) {
                            st.violation((1 << 55) + k, format!("{}:second-body", f.key), format!("{} (second body of the process; the first one was {:?} with chunk size {c})", f.msg, first), || {
                                json!({"engine": "stream_mc", "config": cfg_b.to_json(), "ops": second.iter().map(|o| o.to_json()).collect::<Vec<_>>(), "extra_polls": 2, "first_body": {"config": a.to_json(), "ops": first.iter().map(|o| o.to_json()).collect::<Vec<_>>()}})
                            });
                        }
                    }
                }
            }
        }
    }
    total.merge(st);
    total
}

/// Streaming half of C12 / C20: the same history sweeps, reporting only that property's
/// findings (C12: the per-step hint / end-flag monitor; C20: `extra` polls after the terminal
/// event).
pub fn run_monitor(prop: &str, tier: Tier, extra_polls: usize) -> Stats {
    let mut total = Stats::new();
    // identity, no abort / body drop (C08 space, one level shallower)
    for (c, d) in tier.pick(vec![(1usize, 4usize), (2, 4), (4, 3), (4096, 3)], vec![(1, 5), (2, 5), (3, 4), (4, 4), (7, 4), (4096, 4)]) {
        let cfg = Config { chunk: c, level: 6, accept: None, payload: Payload::Rand, fresh_wakers: false, hop_threads: false };
        total.merge(sweep(prop, &cfg, alphabet(c, true, false, false, None), d, extra_polls));
    }
    // with abort and body drop (C11 space)
    for (c, d) in tier.pick(vec![(1usize, 4usize), (2, 4), (4096, 3)], vec![(1, 5), (2, 5), (3, 4), (4096, 4)]) {
        let cfg = Config { chunk: c, level: 6, accept: None, payload: Payload::Rand, fresh_wakers: false, hop_threads: false };
        total.merge(sweep(prop, &cfg, alphabet(c, false, true, true, None), d, extra_polls));
    }
    // gzip writer (C09 / C11 space)
    for (c, level, d) in tier.pick(vec![(1usize, 6u32, 3usize), (19, 1, 3)], vec![(1, 6, 4), (19, 1, 4), (4096, 9, 4)]) {
        let cfg = Config { chunk: c, level, accept: Some("gzip".into()), payload: Payload::Rep, fresh_wakers: false, hop_threads: false };
        total.merge(sweep(prop, &cfg, alphabet(c, false, true, true, Some(vec![0, 1, 300, 5000])), d, extra_polls));
    }
    total.merge(long_runs(prop, tier, None, extra_polls));
    total.merge(long_runs(prop, Tier::Quick, Some(6), extra_polls));
    total.merge(stream_zoo(prop, tier));
    total
}
