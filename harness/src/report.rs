//! Evidence files, violation replays, known findings, parallel work splitting.

use serde_json::{json, Value};
use std::collections::{BTreeMap, HashSet};
use std::hash::{Hash, Hasher};
use std::path::PathBuf;
use std::time::Instant;

pub const VERIF: &str = "/verif";

/// Where a run writes its scratch files, replays and (unless VERIF_EVIDENCE_DIR is set) evidence.
/// `/verif` unless VERIF_SCRATCH is set: parallel runs against scratch copies of the repository
/// (tools/mutants.py) each get their own directory. `known_findings.txt` is always /verif's.
pub fn scratch_root() -> String {
    std::env::var("VERIF_SCRATCH").unwrap_or_else(|_| VERIF.to_string())
}

// ---- watchdog for calls into the subject that never return -----------------------------------
// A subject that loops forever inside one call (serve(), a writer operation, should_gzip) would
// hang the explorer: no verdict, and whoever runs the check has to kill it. Every such call is
// therefore announced in a per-thread slot (a closure that can describe the case, and the time it
// started); a watchdog thread reports a call that has not returned after HANG_S seconds as a
// violation of the property being checked -- with a replay file -- and ends the process with 1.
pub type CaseFn = Box<dyn Fn() -> Value + Send>;

struct Slot {
    since_ms: std::sync::atomic::AtomicU64, // 0 = idle
    case: std::sync::Mutex<Option<CaseFn>>,
}

static SLOTS: std::sync::Mutex<Vec<std::sync::Arc<Slot>>> = std::sync::Mutex::new(Vec::new());
static WATCH_PROP: std::sync::Mutex<Option<(String, String, String)>> = std::sync::Mutex::new(None); // (property, engine, tier)
thread_local! {
    static MY_SLOT: std::sync::Arc<Slot> = {
        let s = std::sync::Arc::new(Slot { since_ms: std::sync::atomic::AtomicU64::new(0), case: std::sync::Mutex::new(None) });
        SLOTS.lock().unwrap().push(s.clone());
        s
    };
}

pub fn hang_secs() -> u64 {
    std::env::var("VERIF_HANG_S").ok().and_then(|s| s.parse().ok()).unwrap_or(60)
}

/// Runs `f` (a call into the subject) under the watchdog. `case` describes it for the replay file.
pub fn watched<T>(case: CaseFn, f: impl FnOnce() -> T) -> T {
    MY_SLOT.with(|slot| {
        *slot.case.lock().unwrap() = Some(case);
        slot.since_ms.store(now_ms().max(1), std::sync::atomic::Ordering::SeqCst);
        let r = f();
        slot.since_ms.store(0, std::sync::atomic::Ordering::SeqCst);
        r
    })
}

pub fn start_watchdog(prop: &str, engine: &str, tier: Tier) {
    let mut g = WATCH_PROP.lock().unwrap();
    let first = g.is_none();
    *g = Some((prop.to_string(), engine.to_string(), tier.name().to_string()));
    drop(g);
    if !first {
        return;
    }
    unsafe {
        libc::signal(libc::SIGABRT, on_abort as *const () as usize);
    }
    std::thread::spawn(|| loop {
        std::thread::sleep(std::time::Duration::from_millis(500));
        let limit = hang_secs() * 1000;
        let slots: Vec<std::sync::Arc<Slot>> = SLOTS.lock().unwrap().clone();
        for s in slots {
            let since = s.since_ms.load(std::sync::atomic::Ordering::SeqCst);
            if since != 0 && now_ms().saturating_sub(since) > limit {
                let case = s.case.lock().unwrap().as_ref().map(|c| c()).unwrap_or(json!(null));
                let (prop, engine, tier) = WATCH_PROP.lock().unwrap().clone().unwrap();
                let dir = PathBuf::from(format!("{}/replays/{}", scratch_root(), prop));
                let _ = std::fs::create_dir_all(&dir);
                let path = dir.join(format!("{tier}-hang.json"));
                let msg = format!("a call into the subject has not returned after {} s (it loops or blocks forever)", limit / 1000);
                let doc = json!({"property": prop, "engine": engine, "key": "subject-call-never-returns", "message": msg, "case": case});
                let _ = std::fs::write(&path, serde_json::to_string_pretty(&doc).unwrap());
                let evdir = std::env::var("VERIF_EVIDENCE_DIR").unwrap_or(format!("{}/evidence", scratch_root()));
                let _ = std::fs::create_dir_all(&evdir);
                let ev = json!({"property_id": prop, "tier": tier, "seed": 0, "level": "model_checking", "wall_s": now_ms() as f64 / 1000.0, "violations": 1,
                    "coverage": {"evaluations": 0, "distinct_nontrivial": 0, "rule": "run ended by the watchdog: a call into the subject never returned", "samples": [case], "states": 0, "transitions": 0, "traces_validated_against_impl": 0, "exhaustive": false, "engine": engine}});
                let _ = std::fs::write(format!("{evdir}/{prop}.json"), serde_json::to_string_pretty(&ev).unwrap() + "\n");
                println!("# subject-call-never-returns: {msg}");
                println!("VIOLATION property={prop} replay={}", path.display());
                std::process::exit(1);
            }
        }
    });
}

/// SIGABRT: Rust aborts the process when a panic starts while another one is unwinding (a
/// destructor of the subject that panics again, e.g. flate2's nested encoders finishing into a
/// chunk writer whose `write` panics) and when an allocation fails. The second is machinery (the
/// handler returns, the process dies with 134 and ./check reruns without giant entities); the first
/// is behaviour of the subject in the case this thread is executing, and no `catch_unwind` can
/// contain it, so it is reported from here: replay file, minimal evidence, VIOLATION line, exit 1.
/// The handler runs on the aborting thread, outside any allocator call, so allocating is safe in
/// practice; an alarm ends the process should it ever get stuck.
extern "C" fn on_abort(_sig: libc::c_int) {
    if crate::alloc::ALLOC_FAILED.load(std::sync::atomic::Ordering::SeqCst) {
        return;
    }
    static ENTERED: std::sync::atomic::AtomicBool = std::sync::atomic::AtomicBool::new(false);
    if ENTERED.swap(true, std::sync::atomic::Ordering::SeqCst) {
        // another worker is already reporting its case; wait for it to end the process
        loop {
            std::thread::sleep(std::time::Duration::from_secs(1));
        }
    }
    unsafe {
        libc::alarm(20);
    }
    let case = MY_SLOT
        .try_with(|s| {
            if s.since_ms.load(std::sync::atomic::Ordering::SeqCst) == 0 {
                return json!(null);
            }
            match s.case.try_lock() {
                Ok(g) => g.as_ref().map(|c| c()).unwrap_or(json!(null)),
                Err(_) => json!(null),
            }
        })
        .unwrap_or(json!(null));
    let (prop, engine, tier) = match WATCH_PROP.try_lock().ok().and_then(|g| g.clone()) {
        Some(x) => x,
        None => return,
    };
    let dir = PathBuf::from(format!("{}/replays/{}", scratch_root(), prop));
    let _ = std::fs::create_dir_all(&dir);
    let path = dir.join(format!("{tier}-abort.json"));
    let msg = "the subject aborted the process in this case: it panicked again while a panic was unwinding (a destructor that panics), which no caller can contain";
    let doc = json!({"property": prop, "engine": engine, "key": "subject-aborts-the-process", "message": msg, "case": case});
    let _ = std::fs::write(&path, serde_json::to_string_pretty(&doc).unwrap());
    let evdir = std::env::var("VERIF_EVIDENCE_DIR").unwrap_or(format!("{}/evidence", scratch_root()));
    let _ = std::fs::create_dir_all(&evdir);
    let ev = json!({"property_id": prop, "tier": tier, "seed": 0, "level": "model_checking", "wall_s": now_ms() as f64 / 1000.0, "violations": 1,
        "coverage": {"evaluations": 0, "distinct_nontrivial": 0, "rule": "run ended by the abort handler: the subject aborted the process", "samples": [case], "states": 0, "transitions": 0, "traces_validated_against_impl": 0, "exhaustive": false, "engine": engine}});
    let _ = std::fs::write(format!("{evdir}/{prop}.json"), serde_json::to_string_pretty(&ev).unwrap() + "\n");
    use std::io::Write;
    let out = format!("# subject-aborts-the-process: {msg}\nVIOLATION property={prop} replay={}\n", path.display());
    let _ = std::io::stdout().write_all(out.as_bytes());
    let _ = std::io::stdout().flush();
    unsafe {
        libc::_exit(1);
    }
}

#[derive(Clone, Copy, Debug, PartialEq, Eq)]
pub enum Tier {
    Quick,
    Thorough,
}

impl Tier {
    pub fn name(&self) -> &'static str {
        match self {
            Tier::Quick => "quick",
            Tier::Thorough => "thorough",
        }
    }
    pub fn pick<T>(&self, q: T, t: T) -> T {
        match self {
            Tier::Quick => q,
            Tier::Thorough => t,
        }
    }
}

pub const NONTRIVIAL_CAP: usize = 1_500_000;

// ---- wall cap ---------------------------------------------------------------------------
// Every run has a wall-clock budget for exploration (quick: 45 s, thorough: 30 min; override
// with VERIF_WALL_CAP_S). Work is handed out simplest-first; once the budget is spent no further
// work items are started, the number skipped is reported and `exhaustive` is cleared. A capped
// run is a run that explored less, never a verdict by itself.
static DEADLINE_MS: std::sync::atomic::AtomicU64 = std::sync::atomic::AtomicU64::new(u64::MAX);
static SKIPPED: std::sync::atomic::AtomicU64 = std::sync::atomic::AtomicU64::new(0);
static T0: std::sync::OnceLock<Instant> = std::sync::OnceLock::new();

fn now_ms() -> u64 {
    T0.get_or_init(Instant::now).elapsed().as_millis() as u64
}

pub fn set_wall_cap(secs: u64) {
    DEADLINE_MS.store(now_ms() + secs * 1000, std::sync::atomic::Ordering::Relaxed);
}

/// Milliseconds left until the current deadline (0 if passed).
pub fn remaining_ms() -> u64 {
    DEADLINE_MS.load(std::sync::atomic::Ordering::Relaxed).saturating_sub(now_ms())
}

/// Replaces the deadline by "now + ms" (used to give each family of a run its share).
pub fn set_deadline_in_ms(ms: u64) {
    DEADLINE_MS.store(now_ms().saturating_add(ms), std::sync::atomic::Ordering::Relaxed);
}

pub fn wall_cap_hit() -> bool {
    now_ms() > DEADLINE_MS.load(std::sync::atomic::Ordering::Relaxed)
}

pub fn note_skipped(n: u64) {
    SKIPPED.fetch_add(n, std::sync::atomic::Ordering::Relaxed);
}

pub fn skipped_by_wall_cap() -> u64 {
    SKIPPED.load(std::sync::atomic::Ordering::Relaxed)
}

pub fn bytes_json(v: &[u8]) -> Value {
    if v.iter().all(|b| (0x20..0x7f).contains(b)) {
        json!(String::from_utf8_lossy(v))
    } else {
        json!({ "hex": v.iter().map(|b| format!("{b:02x}")).collect::<String>() })
    }
}

pub fn bytes_from_json(v: &Value) -> Vec<u8> {
    if let Some(s) = v.as_str() {
        s.as_bytes().to_vec()
    } else {
        let h = v["hex"].as_str().expect("hex");
        (0..h.len() / 2)
            .map(|i| u8::from_str_radix(&h[2 * i..2 * i + 2], 16).expect("hex digit"))
            .collect()
    }
}

pub fn hash_of<T: Hash>(t: &T) -> u64 {
    let mut h = std::collections::hash_map::DefaultHasher::new();
    t.hash(&mut h);
    h.finish()
}

#[derive(Clone, Debug)]
pub struct Violation {
    pub key: String,
    pub msg: String,
    /// Replayable case (engine-specific JSON, includes "engine").
    pub case: Value,
    /// Position in the enumeration (smaller = simpler).
    pub order: u64,
}

/// Per-worker statistics, merged at the end.
#[derive(Default)]
pub struct Stats {
    pub evaluations: u64,
    pub states: HashSet<u64>,
    pub transitions: HashSet<u64>,
    pub nontrivial: HashSet<u64>,
    pub outcomes: BTreeMap<String, u64>,
    pub samples: Vec<Value>,
    /// key -> simplest violation with that key
    pub violations: BTreeMap<String, Violation>,
    pub violation_count: u64,
    pub counters: BTreeMap<String, u64>,
}

impl Stats {
    pub fn new() -> Stats {
        Stats::default()
    }
    pub fn outcome(&mut self, k: impl Into<String>) {
        *self.outcomes.entry(k.into()).or_insert(0) += 1;
    }
    pub fn count(&mut self, k: &str, n: u64) {
        *self.counters.entry(k.to_string()).or_insert(0) += n;
    }
    pub fn state<T: Hash>(&mut self, t: &T) -> u64 {
        let h = hash_of(t);
        self.states.insert(h);
        h
    }
    pub fn transition(&mut self, from: u64, label: u64, to: u64) {
        self.transitions.insert(hash_of(&(from, label, to)));
    }
    /// Distinct non-trivial cases are counted with a hash set; beyond `NONTRIVIAL_CAP` entries
    /// per worker the set stops growing (memory) and the surplus is only tallied, so the
    /// reported `distinct_nontrivial` is then a lower bound (the evidence says so).
    pub fn nontrivial<T: Hash>(&mut self, t: &T) {
        if self.nontrivial.len() < NONTRIVIAL_CAP {
            self.nontrivial.insert(hash_of(t));
        } else {
            *self.counters.entry("nontrivial_not_deduplicated_beyond_cap".into()).or_insert(0) += 1;
        }
    }
    pub fn sample(&mut self, max: usize, v: impl FnOnce() -> Value) {
        if self.samples.len() < max {
            self.samples.push(v());
        }
    }
    pub fn violation(&mut self, order: u64, key: String, msg: String, case: impl FnOnce() -> Value) {
        self.violation_count += 1;
        match self.violations.get(&key) {
            Some(v) if v.order <= order => {}
            _ => {
                if self.violations.len() < 200 || self.violations.contains_key(&key) {
                    self.violations.insert(
                        key.clone(),
                        Violation {
                            key,
                            msg,
                            case: case(),
                            order,
                        },
                    );
                }
            }
        }
    }
    pub fn merge(&mut self, o: Stats) {
        self.evaluations += o.evaluations;
        self.states.extend(o.states);
        self.transitions.extend(o.transitions);
        if self.nontrivial.len() < NONTRIVIAL_CAP * 16 {
            self.nontrivial.extend(o.nontrivial);
        }
        for (k, v) in o.outcomes {
            *self.outcomes.entry(k).or_insert(0) += v;
        }
        for (k, v) in o.counters {
            *self.counters.entry(k).or_insert(0) += v;
        }
        for s in o.samples {
            if self.samples.len() < 8 {
                self.samples.push(s);
            }
        }
        self.violation_count += o.violation_count;
        for (k, v) in o.violations {
            match self.violations.get(&k) {
                Some(e) if e.order <= v.order => {}
                _ => {
                    self.violations.insert(k, v);
                }
            }
        }
    }
}

/// Runs `work(i, &mut stats)` for every i in 0..n on all cores (dynamic chunks, deterministic
/// results because every item is independent and the merge is order-insensitive).
pub fn par_for<F>(n: u64, threads: usize, work: F) -> Stats
where
    F: Fn(u64, &mut Stats) + Sync,
{
    use std::sync::atomic::{AtomicU64, Ordering};
    let next = AtomicU64::new(0);
    let chunk: u64 = (n / (threads as u64 * 64)).clamp(1, 4096);
    let mut total = Stats::new();
    let results: Vec<Stats> = std::thread::scope(|s| {
        let hs: Vec<_> = (0..threads)
            .map(|_| {
                s.spawn(|| {
                    let mut st = Stats::new();
                    loop {
                        let lo = next.fetch_add(chunk, Ordering::Relaxed);
                        if lo >= n {
                            break;
                        }
                        if wall_cap_hit() {
                            note_skipped((lo + chunk).min(n) - lo);
                            continue;
                        }
                        for i in lo..(lo + chunk).min(n) {
                            work(i, &mut st);
                        }
                    }
                    st
                })
            })
            .collect();
        hs.into_iter().map(|h| h.join().expect("worker")).collect()
    });
    for r in results {
        total.merge(r);
    }
    total
}

/// Measured, not assumed: does `u8::MAX + 1` panic in this build?
#[allow(arithmetic_overflow)]
pub fn overflow_checks_on() -> bool {
    std::panic::catch_unwind(|| std::hint::black_box(255u8) + std::hint::black_box(1u8)).is_err()
}

pub fn threads() -> usize {
    std::env::var("VERIF_THREADS")
        .ok()
        .and_then(|v| v.parse().ok())
        .unwrap_or_else(|| std::thread::available_parallelism().map(|n| n.get()).unwrap_or(4))
}

pub struct Run {
    pub prop: String,
    pub engine: &'static str,
    pub tier: Tier,
    pub seed: u64,
    pub start: Instant,
    pub rule: String,
    pub bounds: Value,
    pub assumptions: Vec<String>,
    pub exhaustive: bool,
    pub extra: BTreeMap<String, Value>,
}

#[derive(Debug)]
struct Known {
    prop: String,
    key: String,
    text: String,
}

fn load_known() -> Vec<Known> {
    let mut v = Vec::new();
    let Ok(s) = std::fs::read_to_string(format!("{VERIF}/known_findings.txt")) else {
        return v;
    };
    for line in s.lines() {
        // known: property=<id> key=<key> :: <text>
        let Some(rest) = line.strip_prefix("known: ") else {
            continue;
        };
        let (head, text) = rest.split_once(" :: ").unwrap_or((rest, ""));
        let mut prop = None;
        let mut key = None;
        if let Some((p, k)) = head.split_once(" key=") {
            prop = p.strip_prefix("property=").map(|x| x.trim().to_string());
            key = Some(k.trim().to_string());
        }
        if let (Some(prop), Some(key)) = (prop, key) {
            v.push(Known {
                prop,
                key,
                text: text.to_string(),
            });
        }
    }
    v
}

impl Run {
    pub fn new(prop: &str, engine: &'static str, tier: Tier) -> Run {
        let cap = std::env::var("VERIF_WALL_CAP_S").ok().and_then(|s| s.parse().ok()).unwrap_or(tier.pick(45u64, 1800));
        set_wall_cap(cap);
        start_watchdog(prop, engine, tier);
        let seed = std::env::var("VERIF_SEED")
            .ok()
            .and_then(|s| s.parse().ok())
            .unwrap_or(0);
        Run {
            prop: prop.to_string(),
            engine,
            tier,
            seed,
            start: Instant::now(),
            rule: String::new(),
            bounds: json!({}),
            assumptions: Vec::new(),
            exhaustive: true,
            extra: BTreeMap::new(),
        }
    }

    /// Writes evidence, replay files and VIOLATION / KNOWN-FINDING lines. Returns the exit code.
    pub fn finish(self, st: Stats) -> i32 {
        let known = load_known();
        let dir = PathBuf::from(format!("{}/replays/{}", scratch_root(), self.prop));
        let mut new_violations = 0;
        let mut known_hits = 0;
        let mut lines = Vec::new();
        for (n, (key, v)) in st.violations.iter().enumerate() {
            if let Some(k) = known.iter().find(|k| k.prop == self.prop && &k.key == key) {
                known_hits += 1;
                lines.push(format!(
                    "KNOWN-FINDING: property={} {} [{}]",
                    self.prop, k.text, key
                ));
                continue;
            }
            new_violations += 1;
            let _ = std::fs::create_dir_all(&dir);
            let path = dir.join(format!("{}-{:03}.json", self.tier.name(), n));
            let doc = json!({
                "property": self.prop,
                "engine": self.engine,
                "key": key,
                "message": v.msg,
                "case": v.case,
            });
            let _ = std::fs::write(&path, serde_json::to_string_pretty(&doc).unwrap());
            if new_violations <= 25 {
                lines.push(format!("# {}: {}", key, v.msg));
                lines.push(format!(
                    "VIOLATION property={} replay={}",
                    self.prop,
                    path.display()
                ));
            }
        }
        let wall = self.start.elapsed().as_secs_f64();
        let mut cov = serde_json::Map::new();
        cov.insert("evaluations".into(), json!(st.evaluations));
        cov.insert("distinct_nontrivial".into(), json!(st.nontrivial.len()));
        cov.insert("rule".into(), json!(self.rule));
        cov.insert("samples".into(), json!(st.samples));
        cov.insert("states".into(), json!(st.states.len()));
        cov.insert("transitions".into(), json!(st.transitions.len()));
        cov.insert(
            "traces_validated_against_impl".into(),
            json!(st.evaluations),
        );
        let skipped = skipped_by_wall_cap();
        let exhaustive = self.exhaustive && skipped == 0;
        cov.insert("exhaustive".into(), json!(exhaustive));
        cov.insert("work_items_skipped_by_wall_cap".into(), json!(skipped));
        cov.insert("bounds".into(), self.bounds.clone());
        cov.insert("distinct_outcomes".into(), json!(st.outcomes.len()));
        cov.insert("outcomes".into(), json!(st.outcomes));
        cov.insert("counters".into(), json!(st.counters));
        cov.insert("engine".into(), json!(self.engine));
        for (k, v) in &self.extra {
            cov.insert(k.clone(), v.clone());
        }
        if std::env::var_os("VERIF_NO_GIANT").is_some() {
            cov.insert("fallback_mode".into(), json!("the first attempt of this run was killed by an allocation failure inside the subject (it copies entity data, and the harness's virtual chunks can be exabytes long); this run skipped every entity longer than 16 MiB"));
        }
        cov.insert(
            "build".into(),
            json!({"debug_assertions": cfg!(debug_assertions), "overflow_checks": overflow_checks_on()}),
        );
        if let Ok(p) = std::env::var("VERIF_NOCHECKS_EVIDENCE") {
            if let Ok(s) = std::fs::read_to_string(&p) {
                if let Ok(v) = serde_json::from_str::<Value>(&s) {
                    cov.insert(
                        "second_build_without_overflow_checks".into(),
                        json!({"evaluations": v["coverage"]["evaluations"], "violations": v["violations"], "wall_s": v["wall_s"], "build": v["coverage"]["build"]}),
                    );
                }
            }
        }
        let mut loom_violations = 0u64;
        if let Ok(p) = std::env::var("VERIF_LOOM_EVIDENCE") {
            // second explorer (loom, /verif/loomchk) run by ./check before this engine
            if let Ok(v) = std::fs::read_to_string(&p).map_err(|_| ()).and_then(|s| serde_json::from_str::<Value>(&s).map_err(|_| ())) {
                loom_violations = v["violations"].as_u64().unwrap_or(0);
                cov.insert("loom_crosscheck".into(), v);
            }
        }
        let new_violations = new_violations + loom_violations as usize;
        let ev = json!({
            "property_id": self.prop,
            "tier": self.tier.name(),
            "seed": self.seed,
            "level": "model_checking",
            "coverage": Value::Object(cov),
            "assumptions": self.assumptions,
            "wall_s": (wall * 1000.0).round() / 1000.0,
            "violations": new_violations,
            "violation_instances": st.violation_count,
            "known_findings_hit": known_hits,
        });
        let evdir = std::env::var("VERIF_EVIDENCE_DIR").unwrap_or(format!("{}/evidence", scratch_root()));
        let _ = std::fs::create_dir_all(&evdir);
        std::fs::write(
            format!("{evdir}/{}.json", self.prop),
            serde_json::to_string_pretty(&ev).unwrap() + "\n",
        )
        .expect("write evidence");
        for l in &lines {
            println!("{l}");
        }
        println!(
            "{} [{} {}] evaluations={} states={} transitions={} nontrivial={} outcomes={} violations={} ({} instances) known={} wall={:.1}s exhaustive={}",
            self.prop,
            self.engine,
            self.tier.name(),
            st.evaluations,
            st.states.len(),
            st.transitions.len(),
            st.nontrivial.len(),
            st.outcomes.len(),
            new_violations,
            st.violation_count,
            known_hits,
            wall,
            exhaustive,
        );
        if skipped > 0 {
            println!("{}: wall cap reached: {} work items (the most complex ones) were not started; everything before them was explored completely", self.prop, skipped);
        }
        // Vacuity guards: a run that explored nothing is a machinery failure, not a pass.
        if st.evaluations == 0 || st.states.is_empty() || st.transitions.is_empty() || st.nontrivial.len() < 2 {
            eprintln!("MACHINERY ERROR: vacuous run (evaluations/states/transitions/nontrivial too small)");
            return 2;
        }
        if new_violations > 0 {
            1
        } else {
            0
        }
    }
}
