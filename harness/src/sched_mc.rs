//! `sched_mc`: every interleaving (at lock / wake / park granularity, iterative preemption
//! bounding) of a producer program on the real `BodyWriter` with a consumer loop polling the
//! real body, plus the environment's choices (fresh waker per poll, spurious re-polls).

use crate::drive::{panic_msg, HErr2, Obs, Sample};
use crate::ent::HErr;
use crate::oracle::serve::Finding;
use crate::report::{hash_of, par_for, threads, Run, Stats, Tier};
use crate::sched::{self, End, Point, Sched, Step};
use crate::vbuf::{content_byte, VBuf};
use bytes::Buf;
use http_body::Body as _;
use serde_json::json;
use std::io::Write;
use std::panic::{catch_unwind, AssertUnwindSafe};
use std::sync::{Arc, Mutex};
use std::task::{Context, Poll};

#[derive(Clone, Copy, Debug, PartialEq, Eq, Hash)]
pub enum POp {
    W(usize),
    F,
    /// wait until the consumer has received everything handed over so far
    Wait,
    A,
}

impl POp {
    fn to_json(&self) -> serde_json::Value {
        match self {
            POp::W(n) => json!({"write": n}),
            POp::F => json!("flush"),
            POp::Wait => json!("wait_until_delivered"),
            POp::A => json!("abort"),
        }
    }
    fn from_json(v: &serde_json::Value) -> POp {
        match v.as_str() {
            Some("flush") => POp::F,
            Some("wait_until_delivered") => POp::Wait,
            Some("abort") => POp::A,
            _ => POp::W(v["write"].as_u64().unwrap() as usize),
        }
    }
}

#[derive(Clone, Copy, Debug, PartialEq, Eq, Hash)]
pub enum WakerPolicy {
    /// per poll the environment chooses "same" (default) or "fresh" (budgeted)
    Choose,
    AlwaysFresh,
}

#[derive(Clone, Debug, PartialEq, Eq, Hash)]
pub struct Setup {
    pub chunk: usize,
    pub gzip: bool,
    pub program: Vec<POp>,
    pub policy: WakerPolicy,
    pub spurious: u32,
    pub env: u32,
    /// consumer drops the body after this many frames instead of draining
    pub drop_after: Option<usize>,
    /// consumer samples size_hint / is_end_stream before each poll (extra lock acquisitions)
    pub sample_hints: bool,
    /// the explorer may deschedule a thread right after it acquired the mutex (inside its critical
    /// section); only code that uses try_lock can tell the difference
    pub cs_preempt: bool,
}

impl Setup {
    pub fn to_json(&self) -> serde_json::Value {
        json!({"chunk": self.chunk, "gzip": self.gzip, "program": self.program.iter().map(|o| o.to_json()).collect::<Vec<_>>(), "policy": format!("{:?}", self.policy), "spurious_budget": self.spurious, "fresh_waker_budget": self.env, "drop_body_after_frames": self.drop_after, "sample_hints": self.sample_hints, "preempt_inside_critical_sections": self.cs_preempt})
    }
    pub fn from_json(v: &serde_json::Value) -> Setup {
        Setup {
            chunk: v["chunk"].as_u64().unwrap() as usize,
            gzip: v["gzip"].as_bool().unwrap(),
            program: v["program"].as_array().unwrap().iter().map(POp::from_json).collect(),
            policy: if v["policy"] == "AlwaysFresh" { WakerPolicy::AlwaysFresh } else { WakerPolicy::Choose },
            spurious: v["spurious_budget"].as_u64().unwrap() as u32,
            env: v["fresh_waker_budget"].as_u64().unwrap() as u32,
            drop_after: v["drop_body_after_frames"].as_u64().map(|x| x as usize),
            sample_hints: v["sample_hints"].as_bool().unwrap_or(false),
            cs_preempt: v["preempt_inside_critical_sections"].as_bool().unwrap_or(false),
        }
    }
}

#[derive(Clone, Debug, Default)]
pub struct ProdLog {
    /// (op, step index at which it started, result: Ok(bytes) / Err)
    pub ops: Vec<(POp, usize, Result<usize, String>)>,
    pub accepted: Vec<u8>,
    pub panicked: Option<String>,
    pub done_at_step: Option<usize>,
}

#[derive(Clone, Debug, Default)]
pub struct ConsLog {
    /// (observation, step index after the poll returned, sample before the poll)
    pub events: Vec<(Obs, usize, Option<Sample>)>,
    pub body_dropped_at_step: Option<usize>,
    pub panicked: Option<String>,
    pub parks: usize,
}

pub struct Exec {
    pub end: End,
    pub steps: Vec<Step>,
    pub notes: Vec<String>,
    pub prod: ProdLog,
    pub cons: ConsLog,
}

const HORIZON: usize = 400;

/// One execution under the choice vector `prefix` (then default answer 0 everywhere).
pub fn run_once(setup: &Setup, prefix: &[usize]) -> Exec {
    let sched = Sched::new_cs(2, setup.spurious, if setup.policy == WakerPolicy::Choose { setup.env } else { 0 }, prefix, HORIZON + 16 * setup.program.len(), setup.cs_preempt);
    let mut rb = http::Request::builder().method("GET").uri("/");
    if setup.gzip {
        rb = rb.header("accept-encoding", "gzip");
    }
    let req = rb.body(()).unwrap();
    let (resp, w) = http_serve::streaming_body(&req).with_chunk_size(setup.chunk).with_gzip_level(1).build::<VBuf, HErr>();
    // leaked instead of dropped if the thread unwinds (see LeakOnUnwind)
    let mut w = crate::drive::LeakOnUnwind::new(w.expect("writer"));
    let body = resp.into_body();
    let plog = Arc::new(Mutex::new(ProdLog::default()));
    let clog = Arc::new(Mutex::new(ConsLog::default()));

    let producer: Box<dyn FnOnce() + Send> = {
        let sched = sched.clone();
        let plog = plog.clone();
        let program = setup.program.clone();
        let chunk = setup.chunk;
        let gzip = setup.gzip;
        Box::new(move || {
                sched::install_hook(&sched, 0);
                let r = catch_unwind(AssertUnwindSafe(|| {
                    if sched.point(0, Point::Start).is_err() {
                        return;
                    }
                    let mut pos = 0usize;
                    let mut handed = 0usize; // bytes the model knows were handed over (raw writer)
                    let mut buffered = 0usize;
                    let mut aborted = false;
                    for op in &program {
                        if sched.aborted() {
                            break;
                        }
                        let at = sched.step_count();
                        let res: Result<usize, String> = match op {
                            POp::W(n) => {
                                let data: Vec<u8> = (pos..pos + n).map(|i| content_byte(i as u64)).collect();
                                match w.write(&data) {
                                    Ok(k) => {
                                        plog.lock().unwrap().accepted.extend_from_slice(&data[..k]);
                                        pos += k;
                                        buffered += k;
                                        if !gzip && buffered >= chunk {
                                            // whole chunks are handed over; a write that accepts more
                                            // than the current chunk keeps the tail in the writer
                                            handed += buffered - buffered % chunk;
                                            buffered %= chunk;
                                        }
                                        Ok(k)
                                    }
                                    Err(e) => Err(format!("{:?}", e.kind())),
                                }
                            }
                            POp::F => match w.flush() {
                                Ok(()) => {
                                    handed += buffered;
                                    buffered = 0;
                                    Ok(0)
                                }
                                Err(e) => Err(format!("{:?}", e.kind())),
                            },
                            POp::Wait => {
                                if !aborted && !gzip {
                                    let _ = sched.point(0, Point::WaitDelivered(handed));
                                }
                                Ok(0)
                            }
                            POp::A => {
                                w.abort(HErr::Abort(7));
                                aborted = true;
                                Ok(0)
                            }
                        };
                        plog.lock().unwrap().ops.push((*op, at, res));
                        sched.progress(0);
                    }
                    drop(w);
                }));
                if let Err(p) = r {
                    plog.lock().unwrap().panicked = Some(panic_msg(p));
                }
                plog.lock().unwrap().done_at_step = Some(sched.step_count());
                sched::remove_hook();
                sched.finish(0);
            })
    };

    let consumer: Box<dyn FnOnce() + Send> = {
        let sched = sched.clone();
        let clog = clog.clone();
        let setup = setup.clone();
        Box::new(move || {
                sched::install_hook(&sched, 1);
                let r = catch_unwind(AssertUnwindSafe(|| {
                    if sched.point(1, Point::Start).is_err() {
                        return;
                    }
                    let mut body = crate::drive::LeakOnUnwind::new(Box::pin(body));
                    let mut gen: u64 = 0;
                    let mut next_gen: u64 = 1;
                    // the waker used before the current one (an executor may alternate between
                    // a few wakers: A, B, A ...)
                    let mut prev: Option<(u64, std::task::Waker)> = None;
                    let mut waker = sched::new_waker(&sched, gen);
                    let mut polls = 0usize;
                    let mut frames = 0usize;
                    let mut after_terminal = 0usize;
                    let mut terminal = false;
                    loop {
                        if sched.aborted() {
                            break;
                        }
                        if !terminal && setup.drop_after == Some(frames) {
                            drop(body);
                            clog.lock().unwrap().body_dropped_at_step = Some(sched.step_count());
                            return;
                        }
                        // environment choice: 0 = same waker as last time, 1 = a fresh one,
                        // 2 = the one used before the current one
                        let choice = if polls == 0 {
                            0
                        } else {
                            match setup.policy {
                                WakerPolicy::AlwaysFresh => 1,
                                WakerPolicy::Choose => match sched.point(1, Point::Choice(if prev.is_some() { 3 } else { 2 })) {
                                    Ok(a) => a,
                                    Err(_) => break,
                                },
                            }
                        };
                        match choice {
                            1 => {
                                let old = std::mem::replace(&mut waker, sched::new_waker(&sched, next_gen));
                                prev = Some((gen, old));
                                gen = next_gen;
                                next_gen += 1;
                            }
                            2 => {
                                let (pg, pw) = prev.take().expect("previous waker");
                                let old = std::mem::replace(&mut waker, pw);
                                prev = Some((gen, old));
                                gen = pg;
                            }
                            _ => {}
                        }
                        let sample = if setup.sample_hints {
                            let h = body.size_hint();
                            Some(Sample { lower: h.lower(), upper: h.upper(), is_end: body.is_end_stream() })
                        } else {
                            None
                        };
                        let mut cx = Context::from_waker(&waker);
                        polls += 1;
                        let o = match body.as_mut().poll_frame(&mut cx) {
                            Poll::Pending => Obs::Pending,
                            Poll::Ready(None) => Obs::End,
                            Poll::Ready(Some(Err(e))) => Obs::Err(e.into()),
                            Poll::Ready(Some(Ok(f))) => match f.into_data() {
                                Ok(VBuf::Real(b)) => Obs::Real(b.chunk().to_vec()),
                                _ => Obs::OtherFrame,
                            },
                        };
                        let at = sched.step_count();
                        if let Obs::Real(v) = &o {
                            sched.add_delivered(v.len());
                            frames += 1;
                        }
                        if o.is_terminal() {
                            sched.set_terminal();
                        }
                        clog.lock().unwrap().events.push((o.clone(), at, sample));
                        sched.progress(1);
                        if terminal {
                            after_terminal += 1;
                            if after_terminal >= 2 || o == Obs::Pending {
                                break;
                            }
                            continue;
                        }
                        match o {
                            Obs::Pending => {
                                clog.lock().unwrap().parks += 1;
                                if sched.point(1, Point::Park(gen)).is_err() {
                                    break;
                                }
                            }
                            o if o.is_terminal() => terminal = true,
                            _ => {}
                        }
                    }
                    drop(body);
                }));
                if let Err(p) = r {
                    clog.lock().unwrap().panicked = Some(panic_msg(p));
                }
                sched::remove_hook();
                sched.finish(1);
            })
    };
    sched::with_hosts(|h| {
        h.start(0, producer);
        h.start(1, consumer);
    });

    let end = sched.wait_end();
    let mut wound_down = true;
    if end != End::AllFinished {
        wound_down = sched.wait_all_finished();
    }
    let mut end = end;
    if wound_down {
        sched::with_hosts(|h| h.join(2));
    } else {
        sched::abandon_hosts();
        end = End::Stuck;
    }
    let (steps, notes) = sched.take_steps();
    let prod = plog.lock().unwrap().clone();
    let cons = clog.lock().unwrap().clone();
    Exec { end, steps, notes, prod, cons }
}

fn fnd(props: &[&'static str], key: impl Into<String>, msg: impl Into<String>) -> Finding {
    Finding { props: props.to_vec(), key: key.into(), msg: msg.into() }
}

/// Oracle for one complete schedule.
pub fn judge(setup: &Setup, x: &Exec) -> Vec<Finding> {
    let mut out = Vec::new();
    match x.end {
        End::Deadlock => {
            let parked = x.cons.events.last().map(|(o, _, _)| *o == Obs::Pending).unwrap_or(false);
            out.push(fnd(&["C10", "C11"], if parked { "deadlock:consumer-parked-forever" } else { "deadlock" }, format!("no enabled thread after {} steps: {}", x.steps.len(), if parked { "the consumer is parked and nobody will wake it (lost wake-up)" } else { "threads blocked" })));
            return out;
        }
        End::Horizon => {
            out.push(fnd(&["C10"], "horizon", format!("no termination within {} scheduling steps", HORIZON + 16 * setup.program.len())));
            return out;
        }
        End::Stuck => {
            out.push(fnd(&["C10", "C11"], "stuck", "a thread ran for 10 s without reaching a scheduling point (spinning, or blocked outside the scheduler's control, e.g. re-locking the mutex it holds)".to_string()));
            return out;
        }
        End::AllFinished => {}
    }
    for n in &x.notes {
        out.push(fnd(&["C10"], "scheduler-note", n.clone()));
    }
    if let Some(p) = &x.prod.panicked {
        out.push(fnd(&["C10", "C11", "C20"], "producer-panic", format!("producer panicked: {p}")));
    }
    if let Some(p) = &x.cons.panicked {
        out.push(fnd(&["C10", "C11", "C20"], "consumer-panic", format!("consumer panicked: {p}")));
    }
    let delivered: Vec<u8> = x.cons.events.iter().flat_map(|(o, _, _)| if let Obs::Real(v) = o { v.clone() } else { vec![] }).collect();
    let term_idx = x.cons.events.iter().position(|(o, _, _)| o.is_terminal());
    let term = term_idx.map(|i| &x.cons.events[i].0);
    let aborted_live = {
        // abort executed before the writer failed and before the body was dropped
        x.prod.ops.iter().any(|(op, at, _)| *op == POp::A && x.cons.body_dropped_at_step.map(|d| *at < d).unwrap_or(true))
            && !x.prod.ops.iter().take_while(|(op, _, _)| *op != POp::A).any(|(_, _, r)| r.is_err())
    };
    if x.cons.events.iter().any(|(o, _, _)| matches!(o, Obs::Real(v) if v.is_empty())) {
        out.push(fnd(&["C10", "C08"], "empty-frame", "empty data frame".to_string()));
    }
    if setup.drop_after.is_none() || x.cons.body_dropped_at_step.is_none() {
        // consumer drained
        match term {
            None => out.push(fnd(&["C10"], "no-terminal", "consumer finished without a terminal event".to_string())),
            Some(Obs::End) => {
                if aborted_live {
                    out.push(fnd(&["C11", "C10"], "clean-end-after-abort", "clean end although the writer aborted".to_string()));
                } else if !setup.gzip && delivered != x.prod.accepted {
                    out.push(fnd(&["C10", "C08"], "clean-end-incomplete", format!("clean end after {} bytes, {} were accepted", delivered.len(), x.prod.accepted.len())));
                } else if setup.gzip {
                    if let Err(e) = crate::oracle::gzip::verify_member(&delivered, &x.prod.accepted) {
                        out.push(fnd(&["C10", "C09"], "gzip-member", format!("clean end but not one gzip member of the written bytes: {e}")));
                    }
                }
            }
            Some(Obs::Err(e)) => {
                if !aborted_live {
                    out.push(fnd(&["C10"], "error-without-abort", format!("body error {e:?} without abort")));
                } else if !matches!(e, HErr2::Abort(7)) {
                    out.push(fnd(&["C11"], "abort-error-replaced", format!("{e:?}")));
                }
                if !setup.gzip && (delivered.len() > x.prod.accepted.len() || delivered[..] != x.prod.accepted[..delivered.len()]) {
                    out.push(fnd(&["C11", "C10"], "not-a-prefix", "bytes delivered before the error are not a prefix of the written bytes".to_string()));
                }
            }
            Some(_) => {}
        }
        // polls needed once the writer is gone: bounded by frames still queued + 2
        if let (Some(done), Some(ti)) = (x.prod.done_at_step, term_idx) {
            let after: Vec<&(Obs, usize, Option<Sample>)> = x.cons.events[..=ti].iter().filter(|(_, at, _)| *at > done).collect();
            let frames_after = after.iter().filter(|(o, _, _)| o.is_data()).count();
            if after.len() > frames_after + 2 {
                out.push(fnd(&["C10"], "too-many-polls", format!("{} polls after the writer was gone, only {} of them delivered data", after.len(), frames_after)));
            }
        }
        // after the terminal event: no data (C20)
        if let Some(ti) = term_idx {
            if x.cons.events[ti + 1..].iter().any(|(o, _, _)| o.data_len() > 0) {
                out.push(fnd(&["C20"], "data-after-terminal", "data after the terminal event".to_string()));
            }
        }
        // hints (C12), when sampled
        let clean = matches!(term, Some(Obs::End));
        let total = delivered.len();
        let mut got = 0usize;
        for (i, (o, _, s)) in x.cons.events.iter().enumerate() {
            if let Some(s) = s {
                let rem = (total - got) as u64;
                if term_idx.map(|t| i <= t).unwrap_or(true) {
                    if clean && s.lower > rem {
                        out.push(fnd(&["C12"], "hint-lower", format!("poll {i}: lower {} > {rem} bytes that followed", s.lower)));
                    }
                    if clean && s.upper.map(|u| u < rem).unwrap_or(false) {
                        out.push(fnd(&["C12"], "hint-upper", format!("poll {i}: upper {:?} < {rem} bytes that followed", s.upper)));
                    }
                    if s.is_end && (rem > 0 || matches!(term, Some(Obs::Err(_)))) {
                        out.push(fnd(&["C12", "C11"], "is-end-lie", format!("poll {i}: is_end_stream() true, yet {} followed", if rem > 0 { "data" } else { "an error" })));
                    }
                }
            }
            got += o.data_len() as usize;
        }
    } else {
        // consumer dropped the body: the producer must be told (C11), for operations that began
        // after the drop had completed.
        let d = x.cons.body_dropped_at_step.unwrap();
        let mut buffered = 0usize;
        let mut failed = false;
        for (op, at, r) in &x.prod.ops {
            let after_drop = *at > d;
            match (op, r) {
                (POp::W(_), Ok(k)) => {
                    if failed {
                        out.push(fnd(&["C11"], "ok-after-error", "a write succeeded after the writer had reported an error".to_string()));
                    }
                    if after_drop && !setup.gzip && buffered + k >= setup.chunk {
                        out.push(fnd(&["C11"], "chunk-completing-write-ok-after-body-drop", format!("write began after the body was dropped (step {at} > {d}) and completed a chunk, yet returned Ok")));
                    }
                    buffered += k;
                    if !setup.gzip && buffered >= setup.chunk {
                        buffered %= setup.chunk;
                    }
                }
                (POp::F, Ok(_)) => {
                    if failed {
                        out.push(fnd(&["C11"], "ok-after-error", "a flush succeeded after the writer had reported an error".to_string()));
                    }
                    if after_drop && buffered > 0 {
                        out.push(fnd(&["C11"], "flush-ok-after-body-drop", format!("flush began after the body was dropped (step {at} > {d}) with {buffered} unflushed byte(s), yet returned Ok")));
                    }
                    buffered = 0;
                }
                (POp::W(_) | POp::F, Err(_)) => failed = true,
                (POp::A, _) => failed = true,
                _ => {}
            }
        }
    }
    out
}

pub struct Explored {
    pub schedules: u64,
    pub capped: bool,
}

/// Depth-first exploration of all choice vectors with at most `bound` preemptions
/// (`None` = unbounded); spurious / fresh-waker deviations are limited by the budgets in
/// `setup`. Calls `each` on every complete execution.
pub fn explore(setup: &Setup, bound: Option<u32>, cap: u64, each: &mut dyn FnMut(&[usize], &Exec)) -> Explored {
    let mut stack: Vec<Vec<usize>> = vec![vec![]];
    let mut n = 0u64;
    let mut capped = false;
    while let Some(prefix) = stack.pop() {
        if n >= cap || sched::abandon_count() >= 3 || (n > 0 && crate::report::wall_cap_hit()) {
            if crate::report::wall_cap_hit() {
                crate::report::note_skipped(1);
            }
            capped = true;
            break;
        }
        let x = run_once(setup, &prefix);
        n += 1;
        let choices: Vec<usize> = x.steps.iter().map(|s| s.chosen).collect();
        each(&choices, &x);
        // preemptions used up to each step
        let mut used = 0u32;
        let mut alts: Vec<Vec<usize>> = Vec::new();
        for (i, s) in x.steps.iter().enumerate() {
            if i >= prefix.len() {
                for alt in (s.chosen + 1)..s.opts.len() {
                    let cost = used + s.opts[alt].preempt as u32;
                    if bound.map(|b| cost <= b).unwrap_or(true) {
                        let mut v = choices[..i].to_vec();
                        v.push(alt);
                        alts.push(v);
                    }
                }
            }
            used += s.opts[s.chosen].preempt as u32;
        }
        // push in reverse so that the simplest deviation is explored first
        for a in alts.into_iter().rev() {
            stack.push(a);
        }
    }
    Explored { schedules: n, capped }
}

fn programs(alphabet: &[POp], max_len: usize) -> Vec<Vec<POp>> {
    let mut out: Vec<Vec<POp>> = vec![vec![]];
    let mut level: Vec<Vec<POp>> = vec![vec![]];
    for _ in 0..max_len {
        let mut next = Vec::new();
        for p in &level {
            for op in alphabet {
                // cut-offs: nothing interesting after abort except one more write/flush
                let aborted_at = p.iter().position(|o| *o == POp::A);
                if let Some(a) = aborted_at {
                    if p.len() - a > 1 || *op == POp::A || *op == POp::Wait {
                        continue;
                    }
                }
                // Wait at the start or twice in a row is a no-op
                if *op == POp::Wait && (p.is_empty() || p.last() == Some(&POp::Wait)) {
                    continue;
                }
                let mut q = p.clone();
                q.push(*op);
                next.push(q);
            }
        }
        out.extend(next.iter().cloned());
        level = next;
    }
    out
}

fn schedule_json(setup: &Setup, choices: &[usize]) -> serde_json::Value {
    json!({"engine": "sched_mc", "setup": setup.to_json(), "choices": choices})
}

fn record(prop: &str, setup: &Setup, choices: &[usize], x: &Exec, st: &mut Stats, order: u64) {
    st.evaluations += 1;
    // scheduler states: (point kinds of both threads, lock holder proxy, delivered so far)
    // scheduler states: (program, thread progress counters, what each thread is blocked at, lock
    // holder, pending wake, bytes delivered); transitions: the decision taken in that state
    let pid = hash_of(&(&setup.program, setup.gzip, setup.drop_after, setup.sample_hints));
    let mut prev: Option<(u64, u64)> = None;
    for s in &x.steps {
        let o = s.opts[s.chosen];
        let cur = st.state(&(pid, &s.pcs, &s.at, s.holder, s.woken, s.delivered));
        if let Some(p) = prev {
            st.transition(p.0, p.1, cur);
        }
        prev = Some((cur, hash_of(&(o.thread, o.answer))));
    }
    if let Some(p) = prev {
        let fin = st.state(&(pid, "final", format!("{:?}", x.end)));
        st.transition(p.0, p.1, fin);
    }
    let obs: Vec<&str> = x.cons.events.iter().map(|(o, _, _)| o.kind()).collect();
    let frames: Vec<usize> = x.cons.events.iter().filter(|(o, _, _)| o.is_data()).map(|(o, _, _)| o.data_len() as usize).collect();
    let term = x.cons.events.iter().find(|(o, _, _)| o.is_terminal()).map(|(o, _, _)| o.kind()).unwrap_or(if x.cons.body_dropped_at_step.is_some() { "body-dropped" } else { "none" });
    st.outcome(format!("{:?}/{}/frames={}/parks={}", x.end, term, frames.len().min(4), x.cons.parks.min(4)));
    st.nontrivial(&(setup, hash_of(&(obs, frames, x.cons.parks))));
    st.count("parks", x.cons.parks as u64);
    let fs = judge(setup, x);
    for f in fs {
        if !f.props.contains(&prop) {
            continue;
        }
        // determinism: the same schedule must give the same observation again
        let again = run_once(setup, choices);
        let same = again.end == x.end && format!("{:?}", again.cons.events) == format!("{:?}", x.cons.events) && format!("{:?}", again.prod.ops) == format!("{:?}", x.prod.ops);
        if !same {
            eprintln!("MACHINERY ERROR: non-deterministic replay of schedule {choices:?} for {setup:?}");
            std::process::exit(2);
        }
        st.violation(order, f.key.clone(), f.msg.clone(), || {
            let mut c = schedule_json(setup, choices);
            c["observed"] = json!({"end": format!("{:?}", x.end), "consumer": x.cons.events.iter().map(|(o, at, _)| json!([o.to_json(), at])).collect::<Vec<_>>(), "producer": x.prod.ops.iter().map(|(o, at, r)| json!([o.to_json(), at, format!("{r:?}")])).collect::<Vec<_>>(), "body_dropped_at_step": x.cons.body_dropped_at_step});
            c
        });
    }
}

pub struct Family {
    pub name: &'static str,
    pub setups: Vec<Setup>,
    pub bound: Option<u32>,
    pub cap: u64,
}

pub fn families(tier: Tier, for_c11: bool) -> Vec<Family> {
    let c = 2usize;
    let alpha_plain = [POp::W(1), POp::W(c), POp::W(c + 1), POp::F, POp::Wait];
    let alpha_abort = [POp::W(1), POp::W(c), POp::F, POp::Wait, POp::A];
    let mk = |program: Vec<POp>, policy: WakerPolicy, spurious: u32, env: u32, drop_after: Option<usize>, gzip: bool, sample: bool| Setup { chunk: if gzip { 8 } else { c }, gzip, program, policy, spurious, env, drop_after, sample_hints: sample, cs_preempt: false };
    let mut fams = Vec::new();
    if !for_c11 {
        // raw programs, unbounded preemptions, no environment deviations
        let n = tier.pick(4, 5);
        fams.push(Family { name: "raw/unbounded", setups: programs(&alpha_plain, n).into_iter().map(|p| mk(p, WakerPolicy::Choose, 0, 0, None, false, false)).collect(), bound: None, cap: 200_000 });
        // with spurious re-polls and per-poll waker choice, preemption bound 2
        let n2 = tier.pick(3, 4);
        fams.push(Family { name: "raw/env-choices/bound2", setups: programs(&alpha_plain, n2).into_iter().map(|p| mk(p, WakerPolicy::Choose, 2, 2, None, false, false)).collect(), bound: Some(2), cap: 200_000 });
        // a fresh waker on every poll
        fams.push(Family { name: "raw/always-fresh", setups: programs(&alpha_plain, tier.pick(3, 4)).into_iter().map(|p| mk(p, WakerPolicy::AlwaysFresh, 1, 0, None, false, false)).collect(), bound: Some(2), cap: 200_000 });
        // longer programs at a small preemption bound
        let n3 = tier.pick(5, 6);
        fams.push(Family { name: "raw/long/bound", setups: programs(&alpha_plain, n3).into_iter().filter(|p| p.len() == n3).map(|p| mk(p, WakerPolicy::Choose, 0, 0, None, false, false)).collect(), bound: Some(tier.pick(1, 2)), cap: 50_000 });
        // periodic programs: a unit repeated 2..5 times (the 3rd, 4th, 5th flush ...), optionally
        // followed by one more operation, with environment choices
        {
            let units: Vec<Vec<POp>> = vec![
                vec![POp::W(1), POp::F],
                vec![POp::W(c)],
                vec![POp::W(1), POp::F, POp::Wait],
                vec![POp::W(c + 1), POp::F],
                vec![POp::F, POp::W(1)],
                vec![POp::W(c), POp::Wait],
            ];
            let mut progs: Vec<Vec<POp>> = Vec::new();
            for u in &units {
                for k in 2..=tier.pick(4usize, 6) {
                    let mut p: Vec<POp> = Vec::new();
                    for _ in 0..k {
                        p.extend_from_slice(u);
                    }
                    progs.push(p.clone());
                    for tail in [POp::F, POp::W(1), POp::A] {
                        let mut q = p.clone();
                        q.push(tail);
                        progs.push(q);
                    }
                }
            }
            fams.push(Family { name: "raw/periodic/env", setups: progs.iter().cloned().map(|p| mk(p, WakerPolicy::Choose, 1, 1, None, false, false)).collect(), bound: Some(tier.pick(2, 3)), cap: 100_000 });
            fams.push(Family { name: "raw/periodic/fresh", setups: progs.into_iter().map(|p| mk(p, WakerPolicy::AlwaysFresh, 1, 0, None, false, false)).collect(), bound: Some(tier.pick(2, 3)), cap: 100_000 });
        }
        // bursts: many chunks queued before the consumer gets to run, then abort / flush / nothing
        {
            let burst = |ks: &[usize]| -> Vec<Vec<POp>> {
                let mut progs: Vec<Vec<POp>> = Vec::new();
                for &k in ks {
                    for tail in [vec![], vec![POp::A], vec![POp::W(1), POp::F], vec![POp::Wait], vec![POp::Wait, POp::W(1), POp::F]] {
                        let mut p = vec![POp::W(c); k];
                        p.extend(tail);
                        progs.push(p);
                    }
                }
                progs
            };
            fams.push(Family { name: "raw/burst", setups: burst(&[9, 12, 16, 17]).into_iter().map(|p| mk(p, WakerPolicy::Choose, 0, 0, None, false, false)).collect(), bound: Some(tier.pick(2, 3)), cap: 200_000 });
            fams.push(Family { name: "raw/burst-long", setups: burst(&[33, 65, 70]).into_iter().map(|p| mk(p, WakerPolicy::Choose, 0, 0, None, false, false)).collect(), bound: Some(tier.pick(1, 2)), cap: 200_000 });
        }
        // preemption INSIDE critical sections (right after the mutex was acquired): invisible to
        // code that only ever calls lock(), but the only way a try_lock can find the mutex held
        {
            let mut setups: Vec<Setup> = programs(&alpha_abort, tier.pick(2, 3)).into_iter().map(|p| mk(p, WakerPolicy::Choose, 1, 1, None, false, false)).collect();
            // "flush returned => the consumer gets the bytes without further producer action":
            // the producer waits for delivery after its flush
            for p in [vec![POp::W(1), POp::F, POp::Wait], vec![POp::W(c), POp::Wait], vec![POp::W(1), POp::F, POp::Wait, POp::W(1), POp::F, POp::Wait], vec![POp::W(c + 1), POp::F, POp::Wait]] {
                setups.push(mk(p, WakerPolicy::Choose, 1, 1, None, false, false));
            }
            for s in setups.iter_mut() {
                s.cs_preempt = true;
            }
            fams.push(Family { name: "raw/preempt-inside-critical-sections", setups, bound: Some(tier.pick(2, 3)), cap: 100_000 });
        }
        // other chunk sizes (the families above fix c = 2): a handful of programs whose write sizes
        // are relative to the chunk size, for c in {1, 8, 4096, 65536}, environment choices on
        {
            let mut setups: Vec<Setup> = Vec::new();
            for cc in [1usize, 8, 4096, 65_536] {
                let small = (cc / 8).max(1);
                for p in [
                    vec![POp::W(small), POp::F],
                    vec![POp::W(cc)],
                    vec![POp::W(cc + 1), POp::F],
                    vec![POp::W(small), POp::F, POp::W(small), POp::F],
                    vec![POp::W(small), POp::F, POp::Wait, POp::W(cc - small.min(cc - 1).min(cc)), POp::F],
                    vec![POp::W(cc), POp::A],
                    vec![POp::W(small), POp::F, POp::A],
                    vec![POp::W(2 * cc), POp::Wait],
                ] {
                    let mut s = mk(p, WakerPolicy::Choose, 1, 1, None, false, false);
                    s.chunk = cc;
                    setups.push(s);
                }
            }
            fams.push(Family { name: "raw/chunk-sizes", setups, bound: Some(tier.pick(2, 3)), cap: 100_000 });
        }
        // abort programs
        fams.push(Family { name: "raw/abort", setups: programs(&alpha_abort, tier.pick(3, 4)).into_iter().filter(|p| p.contains(&POp::A)).map(|p| mk(p, WakerPolicy::Choose, 1, 1, None, false, false)).collect(), bound: tier.pick(Some(2), None), cap: 200_000 });
        if tier == Tier::Thorough {
            fams.push(Family { name: "raw/len5/bound3", setups: programs(&alpha_plain, 5).into_iter().filter(|p| p.len() == 5).map(|p| mk(p, WakerPolicy::Choose, 0, 0, None, false, false)).collect(), bound: Some(3), cap: 100_000 });
            fams.push(Family { name: "raw/env-choices/bound3", setups: programs(&alpha_plain, 3).into_iter().map(|p| mk(p, WakerPolicy::Choose, 2, 3, None, false, false)).collect(), bound: Some(3), cap: 400_000 });
        }
        // hint sampling
        fams.push(Family { name: "raw/hints", setups: programs(&alpha_abort, tier.pick(2, 3)).into_iter().map(|p| mk(p, WakerPolicy::Choose, 0, 0, None, false, true)).collect(), bound: Some(2), cap: 200_000 });
        // gzip writer: every operation is several critical sections
        let galpha = [POp::W(5), POp::F];
        fams.push(Family { name: "gzip/bound", setups: programs(&galpha, tier.pick(2, 3)).into_iter().map(|p| mk(p, WakerPolicy::Choose, 1, 1, None, true, false)).collect(), bound: Some(tier.pick(2, 3)), cap: 400_000 });
    } else {
        fams.push(Family { name: "raw/abort", setups: programs(&alpha_abort, tier.pick(3, 4)).into_iter().filter(|p| p.contains(&POp::A)).map(|p| mk(p, WakerPolicy::Choose, 1, 1, None, false, true)).collect(), bound: Some(2), cap: 200_000 });
        // bursts of queued chunks followed by abort (the abort may land inside any consumer poll)
        fams.push(Family { name: "raw/burst+abort", setups: [9usize, 12, 16, 17, 33].iter().map(|k| { let mut p = vec![POp::W(c); *k]; p.push(POp::A); mk(p, WakerPolicy::Choose, 0, 0, None, false, true) }).collect(), bound: Some(tier.pick(2, 3)), cap: 300_000 });
        let mut v = Vec::new();
        for j in 0..=2usize {
            for p in programs(&[POp::W(1), POp::W(c), POp::F, POp::A], tier.pick(3, 4)) {
                v.push(mk(p, WakerPolicy::Choose, 0, 0, Some(j), false, false));
            }
        }
        fams.push(Family { name: "raw/body-drop", setups: v, bound: None, cap: 200_000 });
        let mut g = Vec::new();
        for j in 0..=1usize {
            for p in programs(&[POp::W(5), POp::F, POp::A], 2) {
                g.push(mk(p, WakerPolicy::Choose, 0, 0, Some(j), true, false));
            }
        }
        fams.push(Family { name: "gzip/body-drop+abort", setups: g, bound: Some(tier.pick(1, 2)), cap: 100_000 });
    }
    fams
}

pub fn run_families(run: &mut Run, for_c11: bool) -> Stats {
    let fams = families(run.tier, for_c11);
    run_family_list(run, fams)
}

pub fn run_family_list(run: &mut Run, fams: Vec<Family>) -> Stats {
    let prop = run.prop.clone();
    let mut total = Stats::new();
    let mut fam_json = Vec::new();
    let mut any_capped = false;
    // a family may use whatever the run's wall budget has left, except a reserve for the families
    // still to come, so that a slow early family cannot starve the later ones
    let total_left = crate::report::remaining_ms();
    let t_start = std::time::Instant::now();
    for (fi, fam) in fams.iter().enumerate() {
        let left = total_left.saturating_sub(t_start.elapsed().as_millis() as u64);
        // ... at least half an equal share is reserved for each family still to come
        let reserve = (fams.len() - fi - 1) as u64 * (total_left / (2 * fams.len() as u64));
        crate::report::set_deadline_in_ms(left.saturating_sub(reserve).max(left / (fams.len() - fi) as u64));
        let capped = std::sync::atomic::AtomicBool::new(false);
        let sched_count = std::sync::atomic::AtomicU64::new(0);
        let max_sched = std::sync::atomic::AtomicU64::new(0);
        let st = par_for(fam.setups.len() as u64, threads(), |i, st| {
            let setup = &fam.setups[i as usize];
            let mut k = 0u64;
            let r = explore(setup, fam.bound, fam.cap, &mut |choices, x| {
                k += 1;
                record(&prop, setup, choices, x, st, (i << 24) | k);
                if k == 1 {
                    st.sample(1, || json!({"family": fam.name, "setup": setup.to_json(), "default_schedule_steps": x.steps.len(), "consumer_events": x.cons.events.iter().map(|(o, _, _)| o.kind()).collect::<Vec<_>>()}));
                }
            });
            if r.capped {
                capped.store(true, std::sync::atomic::Ordering::Relaxed);
            }
            sched_count.fetch_add(r.schedules, std::sync::atomic::Ordering::Relaxed);
            max_sched.fetch_max(r.schedules, std::sync::atomic::Ordering::Relaxed);
        });
        let c = capped.load(std::sync::atomic::Ordering::Relaxed);
        any_capped |= c;
        fam_json.push(json!({"family": fam.name, "programs": fam.setups.len(), "preemption_bound": fam.bound, "schedules": sched_count.load(std::sync::atomic::Ordering::Relaxed), "max_schedules_per_program": max_sched.load(std::sync::atomic::Ordering::Relaxed), "cap_per_program": fam.cap, "cap_hit": c}));
        total.merge(st);
    }
    crate::report::set_deadline_in_ms(total_left.saturating_sub(t_start.elapsed().as_millis() as u64));
    run.extra.insert("families".into(), json!(fam_json));
    if any_capped {
        run.exhaustive = false;
    }
    total
}

pub fn run_c10(run: &mut Run) -> Stats {
    run.rule = "for every producer program (all sequences up to the stated length over {write(1), write(c), write(c+1), flush, wait-until-delivered} and, in the abort family, abort; chunk size c = 2; the writer is dropped at the end) and the consumer loop (poll; park on Pending; 2 extra polls after the terminal event): every schedule at before-lock / wake / park / wait granularity by depth-first search over choice vectors with iterative preemption bounding, x environment choices (fresh or same waker per poll, spurious re-polls) within the stated budgets; families and their bounds are listed under `families`. Oracle per complete schedule: no deadlock (a consumer parked while no thread can run = lost wake-up), no horizon hit, clean end => delivered == everything accepted (gzip: one valid member), abort => terminal event is the abort error, terminal event within (frames still queued + 2) polls after the writer is gone, no data after the terminal event. Every violation is replayed once and must reproduce identically. non-trivial = distinct (program, consumer observation) pairs".into();
    run.bounds = json!({"chunk": 2, "horizon_steps": HORIZON});
    run.assumptions.push("scheduling points = acquisitions of the one instrumented mutex, wake(), park; safe Rust without atomics in chunker.rs has no other communication (Arc reference counts are not observable through the API)".into());
    let mut total = run_families(run, false);
    // Sequential half: every single-threaded history (writer operations and polls on one thread)
    // with the wake-up oracle: a consumer whose last poll returned Pending must find the waker it
    // presented at that poll woken as soon as a writer operation made data, the end or an abort
    // error observable. Same waker for every poll, and a different waker at every poll.
    let tier = run.tier;
    let mut seq = Stats::new();
    for fresh in [false, true] {
        for (c, d, level, accept, sizes) in [
            (2usize, tier.pick(4usize, 5), 6u32, None, vec![0usize, 1, 2, 3]),
            (4096, tier.pick(3, 4), 6, None, vec![0, 1, 4096, 5000]),
            (7, tier.pick(3, 4), 1, Some("gzip".to_string()), vec![0, 1, 300]),
        ] {
            let cfg = crate::stream_mc::Config { chunk: c, level, accept, payload: crate::stream_mc::Payload::Rand, fresh_wakers: fresh, hop_threads: false };
            seq.merge(crate::stream_mc::sweep(&run.prop, &cfg, crate::stream_mc::alphabet(c, false, true, false, Some(sizes)), d, 2));
        }
    }
    run.extra.insert("sequential_histories_with_wake_oracle".into(), json!(seq.evaluations));
    total.merge(seq);
    total
}

pub fn run_c11_conc(run: &mut Run) -> Stats {
    run_families(run, true)
}

/// Concurrent part of C12 / C20: the hint-sampling and abort families, judged for `prop`.
pub fn run_monitor_families(prop: &str, tier: Tier) -> (Stats, serde_json::Value) {
    let mut run = Run::new(prop, "sched_mc", tier);
    let all = families(tier, false);
    let fams: Vec<Family> = all.into_iter().filter(|f| f.name == "raw/hints" || f.name == "raw/abort").collect();
    let st = run_family_list(&mut run, fams);
    (st, run.extra.get("families").cloned().unwrap_or(json!([])))
}

pub fn replay(case: &serde_json::Value, prop: &str) -> i32 {
    let setup = Setup::from_json(&case["setup"]);
    let choices: Vec<usize> = case["choices"].as_array().unwrap().iter().map(|c| c.as_u64().unwrap() as usize).collect();
    let a = run_once(&setup, &choices);
    let b = run_once(&setup, &choices);
    if a.end != b.end || format!("{:?}", a.cons.events) != format!("{:?}", b.cons.events) {
        eprintln!("MACHINERY ERROR: two replays of the same schedule differ");
        return 2;
    }
    println!("setup {setup:?}\nend {:?} after {} steps", a.end, a.steps.len());
    for (i, s) in a.steps.iter().enumerate() {
        println!("  step {i}: thread {} at {:?} (option {} of {})", s.opts[s.chosen].thread, s.point, s.chosen, s.opts.len());
    }
    println!("producer: {:?}\nconsumer: {:?}", a.prod.ops, a.cons.events.iter().map(|(o, at, _)| (o.kind(), *at)).collect::<Vec<_>>());
    let mut bad = false;
    for f in judge(&setup, &a) {
        let mine = f.props.contains(&prop);
        println!("{} [{}] {}: {}", if mine { "VIOLATED" } else { "(other property)" }, f.props.join(","), f.key, f.msg);
        bad |= mine;
    }
    if bad {
        1
    } else {
        0
    }
}
