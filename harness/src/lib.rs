//! Model-checking harness for scottlamb/http-serve (see /verif/DESIGN.md).
pub mod alloc;
pub mod drive;
pub mod ent;
pub mod fs_mc;
pub mod gen;
pub mod neg_mc;
pub mod oracle;
pub mod report;
pub mod sched;
pub mod sysched;
pub mod sched_mc;
pub mod serve_mc;
pub mod stream_mc;
pub mod vbuf;
