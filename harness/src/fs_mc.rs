//! `fs_mc`: `ChunkedReadFile` (C18) and `dir::FsDir` (C19) on real files in a private temp
//! directory, with `std::fs` as the reference. Truncation "races" are enumerated as fault
//! points between polls (single-threaded driver: nothing is left to timing).

use crate::drive::{panic_msg, CountWaker};
use crate::oracle::accept::prefers_gzip;
use crate::oracle::serve::Finding;
use crate::report::{hash_of, par_for, threads, Run, Stats, Tier};
use crate::vbuf::content_vec;
use bytes::Bytes;
use http::HeaderMap;
use http_body::Body as _;
use http_serve::{BoxError, ChunkedReadFile, Entity};
use serde_json::json;
use std::fs::File;
use std::io::Write as _;
use std::os::unix::fs::MetadataExt;
use std::panic::{catch_unwind, AssertUnwindSafe};
use std::path::{Path, PathBuf};
use std::sync::atomic::AtomicUsize;
use std::sync::Arc;
use std::task::{Context, Poll, Waker};

/// Cloneable error type (`ChunkedReadFile` derives `Clone`, which needs `E: Clone`).
#[derive(Clone, Debug)]
pub struct FErr {
    pub kind: Option<std::io::ErrorKind>,
    pub text: String,
}
impl std::fmt::Display for FErr {
    fn fmt(&self, f: &mut std::fmt::Formatter<'_>) -> std::fmt::Result {
        write!(f, "{}", self.text)
    }
}
impl std::error::Error for FErr {}
impl From<BoxError> for FErr {
    fn from(e: BoxError) -> Self {
        FErr { kind: e.downcast_ref::<std::io::Error>().map(|e| e.kind()), text: e.to_string() }
    }
}

type Crf = ChunkedReadFile<Bytes, FErr>;

fn tmp_root() -> PathBuf {
    let p = PathBuf::from(format!("{}/target/tmp", crate::report::scratch_root()));
    std::fs::create_dir_all(&p).expect("create <scratch>/target/tmp");
    p
}

fn fnd(props: &[&'static str], key: impl Into<String>, msg: impl Into<String>) -> Finding {
    Finding { props: props.to_vec(), key: key.into(), msg: msg.into() }
}

fn noop_waker() -> Waker {
    Waker::from(Arc::new(CountWaker(AtomicUsize::new(0))))
}

#[derive(Clone, Copy, Debug, PartialEq, Eq, Hash)]
pub enum Fault {
    None,
    /// truncate the file to this length before poll j
    Truncate { to: u64, before_poll: usize },
    /// append this many bytes before poll j
    Grow { by: u64, before_poll: usize },
    /// truncate the file to this length BEFORE the stream is even asked for (get_range is called
    /// on an instance that has served the whole range before): whatever this stream delivers
    /// beyond the cut cannot have been read from the file after the truncation
    TruncateBeforeCreate { to: u64 },
}

#[derive(Debug)]
pub struct StreamObs {
    pub chunks: Vec<Vec<u8>>,
    /// "end", "err:<kind>", "horizon", "pending", "panic:<msg>"
    pub terminal: String,
    pub polls: usize,
}

fn restore(path: &Path, len: u64, from: u64) {
    let f = std::fs::OpenOptions::new().write(true).open(path).expect("open for restore");
    f.set_len(len).expect("set_len");
    if from < len {
        use std::os::unix::fs::FileExt;
        f.write_all_at(&content_vec(from, (len - from) as usize), from).expect("rewrite tail");
    }
}

/// Polls a stream (from `get_range`, or a `serve` body) to its terminal event, applying the
/// fault before the given poll.
fn drive_stream(mut poll: impl FnMut(&mut Context<'_>) -> Poll<Option<Result<Bytes, FErr>>>, path: &Path, fault: Fault, horizon: usize) -> StreamObs {
    let w = noop_waker();
    let mut cx = Context::from_waker(&w);
    let mut o = StreamObs { chunks: vec![], terminal: String::new(), polls: 0 };
    loop {
        if o.polls >= horizon {
            o.terminal = "horizon".into();
            return o;
        }
        match fault {
            Fault::Truncate { to, before_poll } if before_poll == o.polls => {
                std::fs::OpenOptions::new().write(true).open(path).unwrap().set_len(to).unwrap();
            }
            Fault::Grow { by, before_poll } if before_poll == o.polls => {
                let mut f = std::fs::OpenOptions::new().append(true).open(path).unwrap();
                f.write_all(&vec![0xEE; by as usize]).unwrap();
            }
            _ => {}
        }
        o.polls += 1;
        match catch_unwind(AssertUnwindSafe(|| poll(&mut cx))) {
            Err(p) => {
                o.terminal = format!("panic:{}", panic_msg(p));
                return o;
            }
            Ok(Poll::Pending) => {
                o.terminal = "pending".into();
                return o;
            }
            Ok(Poll::Ready(None)) => {
                o.terminal = "end".into();
                return o;
            }
            Ok(Poll::Ready(Some(Err(e)))) => {
                let kind = e.kind.map(|k| format!("{k:?}")).unwrap_or_else(|| e.text.clone());
                o.terminal = format!("err:{kind}");
                return o;
            }
            Ok(Poll::Ready(Some(Ok(b)))) => o.chunks.push(b.to_vec()),
        }
    }
}

/// Judges one stream against the file content `0..len` for the byte range `start..end`.
fn judge_stream(o: &StreamObs, start: u64, end: u64, fault: Fault, ctx: &str, out: &mut Vec<Finding>) {
    let n = end - start;
    let got: Vec<u8> = o.chunks.concat();
    if o.chunks.iter().any(|c| c.is_empty()) {
        out.push(fnd(&["C18"], "empty-chunk", format!("{ctx}: empty chunk")));
    }
    if let Some(m) = o.terminal.strip_prefix("panic:") {
        out.push(fnd(&["C18"], "panic", format!("{ctx}: panicked: {m}")));
        return;
    }
    if o.terminal == "horizon" || o.terminal == "pending" {
        out.push(fnd(&["C18"], format!("no-termination:{}", o.terminal), format!("{ctx}: stream did not terminate within {} polls ({})", o.polls, o.terminal)));
        return;
    }
    // bytes delivered must be the original content at their offsets, whatever happened
    let want_prefix = content_vec(start, got.len().min(n as usize));
    if got.len() as u64 > n {
        out.push(fnd(&["C18"], "too-many-bytes", format!("{ctx}: {} bytes for a range of {n}", got.len())));
    } else if got != want_prefix {
        let k = got.iter().zip(&want_prefix).position(|(a, b)| a != b).unwrap_or(0);
        out.push(fnd(&["C18"], "wrong-bytes", format!("{ctx}: byte at file offset {} differs from the file content", start + k as u64)));
    }
    if let Fault::TruncateBeforeCreate { to } = fault {
        // nothing of [to, end) can legitimately be delivered: the stream must fail
        if !o.terminal.starts_with("err:") {
            out.push(fnd(&["C18"], "no-error-after-truncation", format!("{ctx}: the file was truncated to {to} before this stream was requested (range end {end}), yet it ended with {} after {} bytes", o.terminal, got.len())));
        } else if got.len() as u64 > to.saturating_sub(start) {
            out.push(fnd(&["C18"], "bytes-beyond-truncation", format!("{ctx}: {} bytes delivered although only {} bytes of the range were left in the file when the stream was requested", got.len(), to.saturating_sub(start))));
        }
        return;
    }
    let truncated_below_end = matches!(fault, Fault::Truncate { to, .. } if to < end);
    // a truncation that happens after everything below the cut has been read only matters if
    // bytes are still owed
    if !truncated_below_end {
        if o.terminal != "end" {
            out.push(fnd(&["C18"], "unexpected-error", format!("{ctx}: terminal {} although the file still covers the range", o.terminal)));
        } else if got.len() as u64 != n {
            out.push(fnd(&["C18"], "short-clean-end", format!("{ctx}: clean end after {} of {n} bytes", got.len())));
        }
    } else {
        let Fault::Truncate { to, .. } = fault else { unreachable!() };
        if o.terminal == "end" && (got.len() as u64) < n {
            out.push(fnd(&["C18"], "truncated-clean-end", format!("{ctx}: file truncated to {to} below range end {end}, yet the stream ended cleanly after {} of {n} bytes", got.len())));
        }
        if o.terminal == "end" && got.len() as u64 == n && got != content_vec(start, n as usize) {
            out.push(fnd(&["C18"], "wrong-bytes", format!("{ctx}: complete but wrong bytes after truncation")));
        }
    }
    // bounded number of polls: every chunk is non-empty, so n + 2 is a generous bound
    if o.polls as u64 > n + 2 {
        out.push(fnd(&["C18"], "too-many-polls", format!("{ctx}: {} polls for {n} bytes", o.polls)));
    }
}

fn boundary_points(len: u64) -> Vec<u64> {
    let mut v = vec![0, 1, len.saturating_sub(1), len];
    let mut k = 65_536u64;
    while k <= len + 1 {
        v.extend([k - 1, k, k + 1]);
        k += 65_536;
    }
    v.retain(|x| *x <= len);
    v.sort();
    v.dedup();
    v
}

fn etag_ok(e: &[u8]) -> bool {
    e.len() >= 2 && e[0] == b'"' && e[e.len() - 1] == b'"' && e[1..e.len() - 1].iter().all(|&b| b == 0x21 || (0x23..=0x7e).contains(&b))
}

pub fn run_c18(run: &mut Run) -> Stats {
    let tier = run.tier;
    let sizes: Vec<u64> = tier.pick(vec![0, 1, 65_535, 65_536, 65_537, 131_072, 200_001], vec![0, 1, 2, 65_535, 65_536, 65_537, 131_071, 131_072, 131_073, 200_001, 262_144]);
    run.rule = "file sizes x every range with start and end in {0, 1, k*65536-1, k*65536, k*65536+1, len-1, len} (start <= end; includes empty and whole) read through get_range; for the fault part truncation to every length in {0, start, start+1, read boundaries in range +-1, end-1} (and, thorough, growth) applied before poll j for every j up to the number of chunks + 1; each range also served through serve() with a Range header (single range) and one two-part multipart per file. Oracle: std::fs as reference -- no truncation: chunks non-empty, concatenation == file bytes, clean end; truncated below the range end: error within a bounded number of polls, never a clean short end, delivered bytes still the original content; len/last_modified == metadata at construction and unchanged later; ETag a valid strong tag, equal across instances/clones of the unmodified file, different after append, mtime +1s, mtime +1ns (if the file system keeps ns), replacement by an identical copy; directories and character devices refused. non-trivial = distinct (size, range, fault) streams".into();
    run.bounds = json!({"sizes": sizes, "read_size_assumed": "none (only non-emptiness and the total are asserted)"});
    run.assumptions.push("std::fs on the sandbox file system is the reference; single-threaded driver, truncation enumerated as a fault point between polls".into());
    let root = tmp_root();
    let dir = tempfile::Builder::new().prefix("c18-").tempdir_in(&root).expect("tempdir");
    let prop = run.prop.clone();
    let base = dir.path().to_path_buf();
    let total = par_for(sizes.len() as u64, threads().min(sizes.len()), |i, st| {
        let len = sizes[i as usize];
        let path = base.join(format!("f{len}"));
        std::fs::write(&path, content_vec(0, len as usize)).expect("write file");
        let mut order = i << 40;
        let meta0 = std::fs::metadata(&path).unwrap();
        let crf = match Crf::new(File::open(&path).unwrap(), HeaderMap::new()) {
            Ok(c) => c,
            Err(e) => {
                st.violation(order, "constructor".into(), format!("ChunkedReadFile::new failed on a regular file: {e}"), || json!({"engine": "fs_mc", "what": "constructor", "len": len}));
                return;
            }
        };
        let pts = boundary_points(len);
        for &start in &pts {
            for &end in &pts {
                if start > end {
                    continue;
                }
                // chunks the unfaulted stream produces (for placing faults)
                let mut faults = vec![Fault::None];
                {
                    let base_obs = {
                        let mut s = crf.get_range(start..end);
                        drive_stream(|cx| s.as_mut().poll_next(cx), &path, Fault::None, 64)
                    };
                    let nchunks = base_obs.chunks.len();
                    let mut cuts = vec![0, start, start + 1, end.saturating_sub(1)];
                    let mut k = 65_536u64;
                    while k <= end + 1 {
                        for c in [k - 1, k, k + 1] {
                            if c >= start && c < end {
                                cuts.push(c);
                            }
                        }
                        k += 65_536;
                    }
                    cuts.retain(|c| *c < end && *c <= len);
                    cuts.sort();
                    cuts.dedup();
                    if end > start {
                        for &to in &cuts {
                            for j in 0..=nchunks {
                                faults.push(Fault::Truncate { to, before_poll: j });
                            }
                        }
                        {
                            for j in 0..=nchunks {
                                faults.push(Fault::Grow { by: 70_000, before_poll: j });
                            }
                        }
                    }
                }
                if end > start {
                    faults.push(Fault::TruncateBeforeCreate { to: start });
                    if end - start > 1 {
                        faults.push(Fault::TruncateBeforeCreate { to: end - 1 });
                    }
                }
                for fault in faults {
                    order += 1;
                    if let Fault::TruncateBeforeCreate { to } = fault {
                        std::fs::OpenOptions::new().write(true).open(&path).unwrap().set_len(to).unwrap();
                    }
                    let mut s = crf.get_range(start..end);
                    let o = drive_stream(|cx| s.as_mut().poll_next(cx), &path, fault, (end - start) as usize / 1024 + 64);
                    drop(s);
                    if fault != Fault::None {
                        let from = match fault {
                            Fault::Truncate { to, .. } | Fault::TruncateBeforeCreate { to } => to,
                            _ => len,
                        };
                        restore(&path, len, from);
                    }
                    st.evaluations += 1;
                    st.nontrivial(&(len, start, end, fault));
                    let s0 = st.state(&("stream", len.min(3), fault != Fault::None, o.chunks.len().min(4)));
                    let s1 = st.state(&("stream-end", o.terminal.split(':').next().map(|s| s.to_string()), o.chunks.len().min(4)));
                    st.transition(s0, hash_of(&fault), s1);
                    st.outcome(format!("{}/{}", if fault == Fault::None { "intact" } else if matches!(fault, Fault::Grow { .. }) { "grown" } else if matches!(fault, Fault::TruncateBeforeCreate { .. }) { "truncated-before-request" } else { "truncated" }, o.terminal.split(':').next().unwrap_or("")));
                    let mut fs = Vec::new();
                    judge_stream(&o, start, end, fault, &format!("get_range({start}..{end}) of a {len}-byte file, {fault:?}"), &mut fs);
                    for f in fs {
                        if f.props.contains(&prop.as_str()) {
                            st.violation(order, f.key.clone(), f.msg.clone(), || json!({"engine": "fs_mc", "what": "get_range", "len": len, "start": start, "end": end, "fault": format!("{fault:?}")}));
                        }
                    }
                    st.sample(1, || json!({"file_len": len, "range": [start, end], "fault": format!("{fault:?}"), "chunks": o.chunks.iter().map(|c| c.len()).collect::<Vec<_>>(), "terminal": o.terminal}));
                }
                // through serve(): single range
                if end > start {
                    for fault in [Fault::None, Fault::Truncate { to: start, before_poll: 0 }, Fault::Truncate { to: end - 1, before_poll: 1 }] {
                        order += 1;
                        let req = http::Request::builder().method("GET").header("range", format!("bytes={start}-{}", end - 1)).body(()).unwrap();
                        let resp = http_serve::serve(crf.clone(), &req);
                        let status = resp.status().as_u16();
                        let cr = resp.headers().get("content-range").map(|v| v.to_str().unwrap_or("").to_string());
                        let mut body = Box::pin(resp.into_body());
                        let o = drive_stream(
                            |cx| match body.as_mut().poll_frame(cx) {
                                Poll::Pending => Poll::Pending,
                                Poll::Ready(None) => Poll::Ready(None),
                                Poll::Ready(Some(Err(e))) => Poll::Ready(Some(Err(e))),
                                Poll::Ready(Some(Ok(f))) => Poll::Ready(Some(Ok(f.into_data().unwrap_or_default()))),
                            },
                            &path,
                            fault,
                            (end - start) as usize / 1024 + 64,
                        );
                        drop(body);
                        if let Fault::Truncate { to, .. } = fault {
                            restore(&path, len, to);
                        }
                        st.evaluations += 1;
                        st.nontrivial(&("serve", len, start, end, fault));
                        st.outcome(format!("serve-{status}/{}", o.terminal.split(':').next().unwrap_or("")));
                        let mut fs = Vec::new();
                        if status != 206 || cr.as_deref() != Some(&format!("bytes {start}-{}/{len}", end - 1)) {
                            fs.push(fnd(&["C18"], "serve-headers", format!("serve over a {len}-byte file, bytes={start}-{}: status {status}, Content-Range {cr:?}", end - 1)));
                        } else {
                            // a truncation at poll >= number of polls needed has no effect; judge_stream handles it
                            judge_stream(&o, start, end, fault, &format!("serve(bytes={start}-{}) over a {len}-byte file, {fault:?}", end - 1), &mut fs);
                        }
                        for f in fs {
                            if f.props.contains(&prop.as_str()) {
                                st.violation(order, format!("serve:{}", f.key), f.msg.clone(), || json!({"engine": "fs_mc", "what": "serve", "len": len, "start": start, "end": end, "fault": format!("{fault:?}")}));
                            }
                        }
                    }
                }
            }
        }
        // multipart through serve(): two parts, second one crossing a read boundary if possible
        if len >= 400 {
            order += 1;
            let (a1, b1, a2, b2) = (0u64, 9u64, len - 100, len - 1);
            let req = http::Request::builder().method("GET").header("range", format!("bytes={a1}-{b1},{a2}-{b2}")).body(()).unwrap();
            let resp = http_serve::serve(crf.clone(), &req);
            let status = resp.status().as_u16();
            let mut body = Box::pin(resp.into_body());
            let o = drive_stream(
                |cx| match body.as_mut().poll_frame(cx) {
                    Poll::Pending => Poll::Pending,
                    Poll::Ready(None) => Poll::Ready(None),
                    Poll::Ready(Some(Err(e))) => Poll::Ready(Some(Err(e))),
                    Poll::Ready(Some(Ok(f))) => Poll::Ready(Some(Ok(f.into_data().unwrap_or_default()))),
                },
                &path,
                Fault::None,
                256,
            );
            st.evaluations += 1;
            st.nontrivial(&("multipart", len));
            let all = o.chunks.concat();
            let find = |needle: &[u8]| all.windows(needle.len()).any(|w| w == needle);
            if status != 206 || o.terminal != "end" || !find(&content_vec(a1, 10)) || !find(&content_vec(a2, 100)) {
                st.violation(order, "serve-multipart".into(), format!("two-part multipart over a {len}-byte file: status {status}, terminal {}, parts present {}/{}", o.terminal, find(&content_vec(a1, 10)), find(&content_vec(a2, 100))), || json!({"engine": "fs_mc", "what": "multipart", "len": len}));
            }
        }
        // ---- metadata and validators -------------------------------------------------------
        let mut fs = Vec::new();
        order += 1;
        st.evaluations += 1;
        st.nontrivial(&("validators", len));
        if crf.len() != meta0.len() {
            fs.push(fnd(&["C18"], "len", format!("len() {} vs metadata {}", crf.len(), meta0.len())));
        }
        if crf.last_modified() != Some(meta0.modified().unwrap()) {
            fs.push(fnd(&["C18"], "last-modified", format!("last_modified() {:?} vs metadata {:?}", crf.last_modified(), meta0.modified().unwrap())));
        }
        let tag = |c: &Crf| c.etag().map(|v| v.as_bytes().to_vec());
        // the file was rewritten by the fault cases above: take a fresh baseline instance
        let fresh = Crf::new(File::open(&path).unwrap(), HeaderMap::new()).unwrap();
        let meta_v = std::fs::metadata(&path).unwrap();
        let e0 = tag(&fresh);
        match &e0 {
            Some(e) if etag_ok(e) => {}
            other => fs.push(fnd(&["C18"], "etag-syntax", format!("etag {:?} is not a valid strong entity-tag", other.as_ref().map(|e| String::from_utf8_lossy(e).to_string())))),
        }
        let again = Crf::new(File::open(&path).unwrap(), HeaderMap::new()).unwrap();
        if tag(&again) != e0 || tag(&fresh.clone()) != e0 {
            fs.push(fnd(&["C18"], "etag-unstable", "two instances on the unmodified file have different etags".to_string()));
        }
        if fresh.len() != meta_v.len() || fresh.last_modified() != Some(meta_v.modified().unwrap()) {
            fs.push(fnd(&["C18"], "metadata", "len()/last_modified() differ from the file's metadata at construction".to_string()));
        }
        let mtime0 = meta_v.modified().unwrap();
        // (a) append
        {
            let mut f = std::fs::OpenOptions::new().append(true).open(&path).unwrap();
            f.write_all(b"x").unwrap();
            drop(f);
            File::open(&path).unwrap().set_modified(mtime0).ok();
            std::fs::OpenOptions::new().write(true).open(&path).unwrap().set_modified(mtime0).unwrap();
            let c = Crf::new(File::open(&path).unwrap(), HeaderMap::new()).unwrap();
            if tag(&c) == e0 {
                fs.push(fnd(&["C18"], "etag-same-after-append", "etag unchanged after the file grew by one byte (same mtime)".to_string()));
            }
            if fresh.len() != len || fresh.last_modified() != Some(mtime0) || crf.len() != meta0.len() || crf.last_modified() != Some(meta0.modified().unwrap()) {
                fs.push(fnd(&["C18"], "metadata-drift", "len()/last_modified() of an existing instance changed after the file was modified".to_string()));
            }
            // two fields changing TOGETHER must not cancel out: the file one byte longer and the
            // modification time moved by d seconds, for every d in -1100..=1100 (a tag that folds
            // its fields into one number with a small multiplier collides on one of these)
            if len <= 65_537 {
                let w = std::fs::OpenOptions::new().write(true).open(&path).unwrap();
                let mut checked = 0u64;
                for d in -1100i64..=1100 {
                    let t = if d >= 0 { mtime0 + std::time::Duration::from_secs(d as u64) } else { mtime0 - std::time::Duration::from_secs((-d) as u64) };
                    if w.set_modified(t).is_err() {
                        continue;
                    }
                    let c = Crf::new(File::open(&path).unwrap(), HeaderMap::new()).unwrap();
                    checked += 1;
                    if tag(&c) == e0 {
                        fs.push(fnd(&["C18"], "etag-collision", format!("same etag although the file grew by one byte and its modification time moved by {d} s")));
                        break;
                    }
                }
                st.count("len_plus_1_mtime_delta_pairs_checked", checked);
                drop(w);
            }
            restore(&path, len, len);
            std::fs::OpenOptions::new().write(true).open(&path).unwrap().set_modified(mtime0).unwrap();
        }
        // (b) mtime + 1 s, (c) mtime + 1 ns
        for (what, d) in [("1s", std::time::Duration::from_secs(1)), ("1ns", std::time::Duration::from_nanos(1))] {
            let w = std::fs::OpenOptions::new().write(true).open(&path).unwrap();
            w.set_modified(mtime0 + d).unwrap();
            drop(w);
            let kept = std::fs::metadata(&path).unwrap().modified().unwrap() == mtime0 + d;
            if !kept {
                st.count(&format!("mtime_plus_{what}_not_kept_by_fs"), 1);
            } else {
                let c = Crf::new(File::open(&path).unwrap(), HeaderMap::new()).unwrap();
                if tag(&c) == e0 {
                    fs.push(fnd(&["C18"], format!("etag-same-after-mtime-{what}"), format!("etag unchanged after the modification time moved by {what}")));
                }
                st.count(&format!("mtime_plus_{what}_checked"), 1);
            }
            std::fs::OpenOptions::new().write(true).open(&path).unwrap().set_modified(mtime0).unwrap();
        }
        // seconds and nanoseconds changing together: +1 s and d ns, d in -1100..=1100
        if len <= 65_537 {
            let w = std::fs::OpenOptions::new().write(true).open(&path).unwrap();
            let mut checked = 0u64;
            for d in -1100i64..=1100 {
                let t1 = mtime0 + std::time::Duration::from_secs(1);
                let t = if d >= 0 { t1 + std::time::Duration::from_nanos(d as u64) } else { t1 - std::time::Duration::from_nanos((-d) as u64) };
                if w.set_modified(t).is_err() || std::fs::metadata(&path).unwrap().modified().unwrap() != t {
                    continue;
                }
                let c = Crf::new(File::open(&path).unwrap(), HeaderMap::new()).unwrap();
                checked += 1;
                if tag(&c) == e0 {
                    fs.push(fnd(&["C18"], "etag-collision", format!("same etag although the modification time moved by 1 s {d:+} ns")));
                    break;
                }
            }
            st.count("mtime_sec_plus_nsec_delta_pairs_checked", checked);
            w.set_modified(mtime0).unwrap();
        }
        // (b') a lattice of modification-time deltas: the tag must tell apart times that differ by
        // any of these amounts (fields merged with the wrong radix collide on such pairs)
        {
            let ns = |n: i128| n;
            let deltas: Vec<i128> = vec![
                ns(2), ns(999), ns(1_000), ns(1_000_000), ns(999_999_999), ns(1_000_000_000) - 1_000_000, ns(1_000_000_000) - 1_000, ns(1_000_000_000) - 1,
                ns(1_000_000_000) + 1, 2 * ns(1_000_000_000) - 2_000_000, ns(1_000_000_000) * 1000 - ns(1_000_000_000), ns(1) << 32, (ns(1) << 32) - 1, ns(1_000_000_000) * 16, ns(1_000_000_000) * 256,
                ns(1_000_000_000) * 4096 + 1, ns(1_000_000_000) * 65_536 - 65_536, ns(1_000_000_000) * 10 - 10, ns(1_000_000_000) * 16 - 16,
            ];
            let mut deltas = deltas;
            deltas.sort();
            deltas.dedup();
            // around a recent time and around the epoch itself (offsets mirrored about 1970-01-01)
            for base_t in [std::time::UNIX_EPOCH + std::time::Duration::new(1_700_000_000, 123_456_789), std::time::UNIX_EPOCH] {
            let mut tags: Vec<(i128, Vec<u8>)> = Vec::new();
            for d in std::iter::once(0i128).chain(deltas.iter().copied()).chain(deltas.iter().map(|d| -*d)) {
                let t = if d >= 0 { base_t + std::time::Duration::from_nanos(d as u64) } else { base_t - std::time::Duration::from_nanos((-d) as u64) };
                let w = std::fs::OpenOptions::new().write(true).open(&path).unwrap();
                if w.set_modified(t).is_err() || std::fs::metadata(&path).unwrap().modified().unwrap() != t {
                    st.count("mtime_delta_not_kept_by_fs", 1);
                    continue;
                }
                drop(w);
                let c = Crf::new(File::open(&path).unwrap(), HeaderMap::new()).unwrap();
                if let Some(e) = tag(&c) {
                    if let Some((d0, _)) = tags.iter().find(|(_, e0)| *e0 == e) {
                        fs.push(fnd(&["C18"], "etag-collision", format!("same etag for modification times that differ by {} ns (offsets {d0} and {d} from the base time)", d - d0)));
                    }
                    tags.push((d, e));
                }
            }
            st.count("mtime_deltas_checked", tags.len() as u64);
            }
            std::fs::OpenOptions::new().write(true).open(&path).unwrap().set_modified(mtime0).unwrap();
        }
        // (e) modification times before the epoch and far in the future: validators must still
        // be produced (no panic), valid, and serve() must answer
        let now = std::time::SystemTime::now();
        for (what, t) in [
            ("1969", std::time::UNIX_EPOCH - std::time::Duration::from_secs(86_400)),
            ("1901", std::time::UNIX_EPOCH - std::time::Duration::new(2_177_452_800, 500_000_000)),
            ("half-a-second-before-1970", std::time::UNIX_EPOCH - std::time::Duration::new(0, 500_000_000)),
            ("year-9999", std::time::UNIX_EPOCH + std::time::Duration::from_secs(253_402_300_799)),
            ("year-2100", std::time::UNIX_EPOCH + std::time::Duration::new(4_102_444_800, 1)),
            ("tomorrow", now + std::time::Duration::from_secs(86_400)),
            ("in-ten-minutes", now + std::time::Duration::new(600, 7)),
        ] {
            let w = std::fs::OpenOptions::new().write(true).open(&path).unwrap();
            if w.set_modified(t).is_err() || std::fs::metadata(&path).unwrap().modified().unwrap() != t {
                st.count(&format!("mtime_{what}_not_kept_by_fs"), 1);
                continue;
            }
            drop(w);
            st.count(&format!("mtime_{what}_checked"), 1);
            let r = catch_unwind(AssertUnwindSafe(|| {
                let c = Crf::new(File::open(&path).unwrap(), HeaderMap::new()).unwrap();
                let e = c.etag().map(|v| v.as_bytes().to_vec());
                let lm = c.last_modified();
                // a second instance on the untouched file, a little later
                std::thread::sleep(std::time::Duration::from_millis(2));
                let c2 = Crf::new(File::open(&path).unwrap(), HeaderMap::new()).unwrap();
                let same = c2.etag().map(|v| v.as_bytes().to_vec()) == e && c2.last_modified() == lm && c2.len() == c.len();
                let req = http::Request::builder().method("GET").body(()).unwrap();
                let status = http_serve::serve(c, &req).status().as_u16();
                (e, lm, status, same)
            }));
            match r {
                Err(p) => fs.push(fnd(&["C18"], format!("validators-panic:{what}"), format!("file with modification time {what}: etag()/last_modified()/serve() panicked: {}", panic_msg(p)))),
                Ok((e, lm, status, same)) => {
                    if !same {
                        fs.push(fnd(&["C18"], "etag-unstable", format!("mtime {what}: two instances opened on the unmodified file disagree about etag / last_modified / len")));
                    }
                    if !e.as_ref().map(|e| etag_ok(e)).unwrap_or(false) {
                        fs.push(fnd(&["C18"], "etag-syntax", format!("mtime {what}: etag {:?}", e.map(|e| String::from_utf8_lossy(&e).to_string()))));
                    } else if e == e0 {
                        fs.push(fnd(&["C18"], format!("etag-same-after-mtime-{what}"), format!("etag unchanged after the modification time moved to {what}")));
                    }
                    if lm != Some(t) {
                        fs.push(fnd(&["C18"], "last-modified", format!("mtime {what}: last_modified() {lm:?}")));
                    }
                    if status != 200 {
                        fs.push(fnd(&["C18"], "serve-status", format!("mtime {what}: plain GET answered {status}")));
                    }
                }
            }
            std::fs::OpenOptions::new().write(true).open(&path).unwrap().set_modified(mtime0).unwrap();
        }
        // (d) replaced by an identical copy (new inode), same mtime
        {
            let tmp = base.join(format!("f{len}.copy"));
            std::fs::copy(&path, &tmp).unwrap();
            std::fs::OpenOptions::new().write(true).open(&tmp).unwrap().set_modified(mtime0).unwrap();
            let ino_old = meta_v.ino();
            let ino_new = std::fs::metadata(&tmp).unwrap().ino();
            std::fs::rename(&tmp, &path).unwrap();
            let c = Crf::new(File::open(&path).unwrap(), HeaderMap::new()).unwrap();
            if ino_old != ino_new && tag(&c) == e0 {
                fs.push(fnd(&["C18"], "etag-same-after-replace", "etag unchanged after the file was replaced by an identical copy (new inode)".to_string()));
            }
            // the old instance still reads the old inode
            let mut s = fresh.get_range(0..len);
            let o = drive_stream(|cx| s.as_mut().poll_next(cx), &path, Fault::None, 64);
            if o.chunks.concat() != content_vec(0, len as usize) {
                fs.push(fnd(&["C18"], "old-instance-after-replace", "instance opened before the replacement no longer serves its file".to_string()));
            }
        }
        for f in fs {
            if f.props.contains(&prop.as_str()) {
                st.violation(order, f.key.clone(), f.msg.clone(), || json!({"engine": "fs_mc", "what": "validators", "len": len}));
            }
        }
    });
    // ranges of 2^32 bytes and more on a sparse file (no byte is stored): the stream must keep
    // yielding non-empty chunks of zeros; quick tier looks at the first chunks, thorough reads on
    let mut st = Stats::new();
    {
        let len: u64 = (1u64 << 32) + 70_000;
        let path = base.join("sparse");
        File::create(&path).unwrap().set_len(len).unwrap();
        let crf = Crf::new(File::open(&path).unwrap(), HeaderMap::new()).unwrap();
        let polls = tier.pick(4usize, 70_000);
        for (start, end) in [(0u64, 1u64 << 32), (7, (1 << 32) + 7), (0, (1 << 32) + 5), (65_531, len), ((1 << 32) - 3, (1 << 32) + 3), (1 << 32, len)] {
            let mut s = crf.get_range(start..end);
            let w = noop_waker();
            let mut cx = Context::from_waker(&w);
            let mut got: u64 = 0;
            let mut verdict = String::from("ok");
            for k in 0..polls {
                match s.as_mut().poll_next(&mut cx) {
                    Poll::Ready(Some(Ok(b))) => {
                        if b.is_empty() || !b.iter().all(|x| *x == 0) {
                            verdict = format!("chunk {k} empty or not the file content");
                            break;
                        }
                        got += b.len() as u64;
                        if got > end - start {
                            verdict = format!("{got} bytes for a range of {}", end - start);
                            break;
                        }
                    }
                    Poll::Ready(Some(Err(e))) => {
                        verdict = format!("error after {got} of {} bytes: {}", end - start, e.text);
                        break;
                    }
                    Poll::Ready(None) => {
                        if got != end - start {
                            verdict = format!("clean end after {got} of {} bytes", end - start);
                        }
                        break;
                    }
                    Poll::Pending => {
                        verdict = "pending".into();
                        break;
                    }
                }
            }
            st.evaluations += 1;
            st.nontrivial(&("sparse", start, end));
            let s0 = st.state(&("sparse", start >= (1 << 32), end - start >= (1 << 32)));
            let s1 = st.state(&("sparse-result", verdict == "ok"));
            st.transition(s0, 0, s1);
            st.outcome(format!("sparse-4GiB/{}", if verdict == "ok" { "ok" } else { "bad" }));
            if verdict != "ok" && prop == "C18" {
                st.violation((1 << 59) + start, "huge-range".into(), format!("get_range({start}..{end}) of a sparse {len}-byte file: {verdict}"), || json!({"engine": "fs_mc", "what": "sparse", "start": start.to_string(), "end": end.to_string()}));
            }
        }
        let _ = std::fs::remove_file(&path);
    }
    // inside a real multi-threaded tokio runtime (where block_in_place really hands the worker's
    // other tasks over, and where code that consults the runtime behaves differently): serve() and
    // drain, several requests concurrently on one entity
    {
        let len: u64 = 200_001;
        let path = base.join("in-runtime");
        std::fs::write(&path, content_vec(0, len as usize)).unwrap();
        let rt = tokio::runtime::Builder::new_multi_thread().worker_threads(2).enable_time().build().expect("runtime");
        let crf = Crf::new(File::open(&path).unwrap(), HeaderMap::new()).unwrap();
        let cases: Vec<(u64, u64)> = vec![(0, len), (5, 200_001), (65_535, 65_537), (100, 150), (0, 65_536), (131_071, 200_000)];
        let results: Vec<((u64, u64), String)> = rt.block_on(async {
            let mut hs = Vec::new();
            for &(a, b) in &cases {
                let crf = crf.clone();
                hs.push(tokio::spawn(async move {
                    let req = http::Request::builder().method("GET").header("range", format!("bytes={a}-{}", b - 1)).body(()).unwrap();
                    let resp = http_serve::serve(crf, &req);
                    let status = resp.status().as_u16();
                    let mut body = Box::pin(resp.into_body());
                    let mut got: Vec<u8> = Vec::new();
                    let verdict = loop {
                        let fut = std::future::poll_fn(|cx| body.as_mut().poll_frame(cx));
                        match tokio::time::timeout(std::time::Duration::from_secs(5), fut).await {
                            Err(_) => break "no frame within 5 s".to_string(),
                            Ok(None) => break "end".to_string(),
                            Ok(Some(Err(e))) => break format!("error: {}", e.text),
                            Ok(Some(Ok(f))) => {
                                if let Ok(d) = f.into_data() {
                                    got.extend_from_slice(&d);
                                }
                                tokio::task::yield_now().await;
                            }
                        }
                    };
                    let ok = status == 206 && verdict == "end" && got == content_vec(a, (b - a) as usize);
                    ((a, b), if ok { "ok".to_string() } else { format!("status {status}, {verdict}, {} bytes (correct content: {})", got.len(), got == content_vec(a, got.len().min((b - a) as usize))) })
                }));
            }
            let mut out = Vec::new();
            for h in hs {
                match h.await {
                    Ok(r) => out.push(r),
                    Err(e) => out.push(((0, 0), format!("task panicked: {e}"))),
                }
            }
            out
        });
        for ((a, b), verdict) in results {
            st.evaluations += 1;
            st.nontrivial(&("in-runtime", a, b));
            let s0 = st.state(&("in-runtime", b - a > 65_536));
            let s1 = st.state(&("in-runtime-result", verdict == "ok"));
            st.transition(s0, 0, s1);
            st.outcome(format!("inside-multi-thread-runtime/{}", if verdict == "ok" { "ok" } else { "bad" }));
            if verdict != "ok" && prop == "C18" {
                st.violation((1 << 57) + a, "inside-runtime".into(), format!("serve(bytes={a}-{}) of a {len}-byte file, drained inside a multi-threaded tokio runtime next to five other requests on the same entity: {verdict}", b - 1), || json!({"engine": "fs_mc", "what": "in-runtime"}));
            }
        }
        drop(rt);
        let _ = std::fs::remove_file(&path);
    }
    // two live streams of ONE entity, polled alternately (an entity is "cheap to clone and reuse
    // for many requests"): each must still yield exactly its own range
    {
        let len: u64 = 200_001;
        let path = base.join("two-streams");
        std::fs::write(&path, content_vec(0, len as usize)).unwrap();
        let crf = Crf::new(File::open(&path).unwrap(), HeaderMap::new()).unwrap();
        for (ra, rb) in [((5u64, 200_001u64), (100u64, 150u64)), ((0, 65_536), (65_536, 131_072)), ((70_000, 200_000), (0, 70_000)), ((1, 2), (3, 200_000))] {
            for first_polls in [1usize, 2] {
                let w = noop_waker();
                let mut cx = Context::from_waker(&w);
                let mut sa = crf.get_range(ra.0..ra.1);
                let mut sb = crf.clone().get_range(rb.0..rb.1);
                let mut got_a: Vec<u8> = Vec::new();
                let mut got_b: Vec<u8> = Vec::new();
                let mut verdict = String::from("ok");
                let mut pull = |s: &mut std::pin::Pin<Box<dyn futures_core::Stream<Item = Result<Bytes, FErr>> + Send + Sync>>, out: &mut Vec<u8>, cx: &mut Context<'_>| -> Option<bool> {
                    match s.as_mut().poll_next(cx) {
                        Poll::Ready(Some(Ok(b))) => {
                            out.extend_from_slice(&b);
                            Some(true)
                        }
                        Poll::Ready(None) => Some(false),
                        _ => None,
                    }
                };
                // (a finished stream is not polled again: futures' `unfold` forbids it)
                let mut a_done = false;
                for _ in 0..first_polls {
                    if a_done {
                        break;
                    }
                    match pull(&mut sa, &mut got_a, &mut cx) {
                        None => verdict = "error / pending on the first stream".into(),
                        Some(more) => a_done = !more,
                    }
                }
                // drain b, then finish a (alternating once more in between)
                let mut guard = 0;
                loop {
                    guard += 1;
                    match pull(&mut sb, &mut got_b, &mut cx) {
                        Some(true) if guard < 64 => {
                            if guard == 1 && !a_done {
                                if let Some(more) = pull(&mut sa, &mut got_a, &mut cx) {
                                    a_done = !more;
                                }
                            }
                        }
                        Some(_) => break,
                        None => {
                            verdict = "error / pending on the second stream".into();
                            break;
                        }
                    }
                }
                for _ in 0..64 {
                    if a_done {
                        break;
                    }
                    match pull(&mut sa, &mut got_a, &mut cx) {
                        Some(true) => {}
                        Some(false) => break,
                        None => {
                            verdict = "error / pending on the first stream".into();
                            break;
                        }
                    }
                }
                if verdict == "ok" && (got_a != content_vec(ra.0, (ra.1 - ra.0) as usize) || got_b != content_vec(rb.0, (rb.1 - rb.0) as usize)) {
                    verdict = format!("wrong bytes: stream {ra:?} delivered {} bytes (correct: {}), stream {rb:?} delivered {} bytes (correct: {})", got_a.len(), got_a == content_vec(ra.0, (ra.1 - ra.0) as usize), got_b.len(), got_b == content_vec(rb.0, (rb.1 - rb.0) as usize));
                }
                st.evaluations += 1;
                st.nontrivial(&("two-streams", ra, rb, first_polls));
                let s0 = st.state(&("two-streams", ra.1 - ra.0 > 65_536, rb.1 - rb.0 > 65_536));
                let s1 = st.state(&("two-streams-result", verdict == "ok"));
                st.transition(s0, first_polls as u64, s1);
                st.outcome(format!("two-live-streams/{}", if verdict == "ok" { "ok" } else { "bad" }));
                if verdict != "ok" && prop == "C18" {
                    st.violation((1 << 58) + ra.0, "interleaved-streams".into(), format!("two streams of one entity polled alternately, {ra:?} and {rb:?}: {verdict}"), || json!({"engine": "fs_mc", "what": "two-streams"}));
                }
            }
        }
        let _ = std::fs::remove_file(&path);
    }
    // Streams of ONE entity drained on DIFFERENT THREADS: every interleaving of their read-side
    // file system calls (see sysched.rs). The entity's streams share one open file; each must
    // yield exactly its own range whatever the other threads do in between two of its calls.
    {
        let len: u64 = 200_001;
        let path = base.join("threads");
        std::fs::write(&path, content_vec(0, len as usize)).unwrap();
        type Job = Box<dyn FnOnce() -> (Vec<u8>, String) + Send>;
        let drain = |crf: Crf, r: (u64, u64), via_serve: bool| -> Job {
            Box::new(move || {
                let w = noop_waker();
                let mut cx = Context::from_waker(&w);
                let mut got = Vec::new();
                if via_serve {
                    let req = http::Request::builder().method("GET").header("range", format!("bytes={}-{}", r.0, r.1 - 1)).body(()).unwrap();
                    let resp: http::Response<http_serve::Body<Bytes, FErr>> = http_serve::serve(crf, &req);
                    let mut body = Box::pin(resp.into_body());
                    for _ in 0..64 {
                        match http_body::Body::poll_frame(body.as_mut(), &mut cx) {
                            Poll::Ready(Some(Ok(f))) => {
                                if let Ok(d) = f.into_data() {
                                    got.extend_from_slice(&d)
                                }
                            }
                            Poll::Ready(None) => return (got, "end".into()),
                            Poll::Ready(Some(Err(e))) => return (got, format!("err:{}", e.text)),
                            Poll::Pending => return (got, "pending".into()),
                        }
                    }
                    return (got, "horizon".into());
                }
                let mut s = crf.get_range(r.0..r.1);
                for _ in 0..64 {
                    match s.as_mut().poll_next(&mut cx) {
                        Poll::Ready(Some(Ok(b))) => {
                            if b.is_empty() {
                                return (got, "empty-chunk".into());
                            }
                            got.extend_from_slice(&b)
                        }
                        Poll::Ready(None) => return (got, "end".into()),
                        Poll::Ready(Some(Err(e))) => return (got, format!("err:{}", e.text)),
                        Poll::Pending => return (got, "pending".into()),
                    }
                }
                (got, "horizon".into())
            })
        };
        // (ranges per thread, via serve?, preemption bound, file cursor left at this position by the caller)
        let unb = u32::MAX;
        let mut shapes: Vec<(Vec<(u64, u64)>, bool, u32, u64)> = vec![
            (vec![(0, 131_073), (65_530, 196_610)], false, unb, 0),
            (vec![(1, 65_537), (100_000, 200_001)], false, unb, 77),
            (vec![(0, 70_000), (70_000, 140_000), (140_000, 200_001)], false, 3, 0),
            (vec![(5, 200_001), (0, 5)], true, unb, 200_001),
            (vec![(0, 131_072), (131_072, 200_001)], true, unb, 3),
        ];
        if tier == Tier::Thorough {
            shapes.push((vec![(0, 200_001), (0, 200_001)], false, unb, 0));
            shapes.push((vec![(0, 70_000), (70_000, 140_000), (140_000, 200_001)], false, 6, 0));
            shapes.push((vec![(0, 65_536), (65_536, 131_072), (131_072, 196_608), (196_608, 200_001)], false, 4, 1));
        }
        let mut total_exec = 0u64;
        let mut calls: std::collections::BTreeSet<&'static str> = Default::default();
        let mut sys_info = Vec::new();
        for (si, (ranges, via_serve, bound, cursor)) in shapes.iter().enumerate() {
            let mut f = File::open(&path).unwrap();
            {
                use std::io::Seek;
                f.seek(std::io::SeekFrom::Start(*cursor)).unwrap();
            }
            let crf = Crf::new(f, HeaderMap::new()).unwrap();
            let mut mk = || ranges.iter().map(|r| drain(crf.clone(), *r, *via_serve)).collect::<Vec<Job>>();
            let mut bad: Option<(Vec<usize>, String)> = None;
            let mut distinct: std::collections::HashSet<Vec<usize>> = Default::default();
            let verdict_of = |t: usize, r: std::thread::Result<(Vec<u8>, String)>| -> String {
                let (a, b) = ranges[t];
                match r {
                    Err(p) => format!("panic: {}", panic_msg(p)),
                    Ok((got, term)) => {
                        if term != "end" {
                            format!("terminal event {term} after {} bytes", got.len())
                        } else if got != content_vec(a, (b - a) as usize) {
                            let first_bad = got.iter().zip(content_vec(a, (b - a) as usize).iter()).position(|(x, y)| x != y);
                            format!("wrong bytes: {} delivered, {} expected, first difference at offset {:?} of the range", got.len(), b - a, first_bad)
                        } else {
                            "ok".to_string()
                        }
                    }
                }
            };
            let mut check = |choices: &[usize], rs: Vec<std::thread::Result<(Vec<u8>, String)>>, trace: &[crate::sysched::Decision]| {
                distinct.insert(choices.to_vec());
                for (t, r) in rs.into_iter().enumerate() {
                    let (a, b) = ranges[t];
                    let verdict = verdict_of(t, r);
                    if verdict != "ok" && bad.is_none() {
                        let sched: Vec<String> = trace.iter().map(|d| format!("T{}:{}", d.opts[d.chosen], d.call)).collect();
                        bad = Some((choices.to_vec(), format!("thread {t} draining {a}..{b}: {verdict}; schedule {}", sched.join(" "))));
                    }
                }
            };
            let cap = tier.pick(4_000u64, 200_000);
            let ex = crate::sysched::explore(*bound, cap, &mut mk, &mut check);
            // the same choice vector once more: the scheduler owns every decision, so the same
            // schedule must fail again (the message says so if it does not)
            if ex.hang.is_none() {
                if let Some((choices, msg)) = bad.as_mut() {
                    let again = match crate::sysched::run(mk(), choices) {
                        Ok(e) => e.results.into_iter().enumerate().any(|(t, r)| verdict_of(t, r) != "ok"),
                        Err(_) => false,
                    };
                    msg.push_str(if again { " [replayed: fails again]" } else { " [replayed: did NOT fail again -- the subject's threads are not fully determined by their system calls]" });
                }
            }
            {
                total_exec += ex.executions;
                calls.extend(ex.calls_seen.iter().copied());
                st.evaluations += ex.executions;
                st.count("syscall_interleavings", ex.executions);
                if ex.capped_at != 0 {
                    st.count("syscall_interleaving_shapes_capped", 1);
                }
                if let Some(tr) = &ex.hang {
                    if bad.is_none() {
                        let sched: Vec<String> = tr.iter().map(|d| format!("T{}:{}", d.opts[d.chosen], d.call)).collect();
                        bad = Some((tr.iter().map(|d| d.chosen).collect(), format!("the threads did not finish within 30 s; schedule so far {}", sched.join(" "))));
                    }
                }
                sys_info.push(json!({"ranges": ranges, "via_serve": via_serve, "preemption_bound": if *bound == unb { json!("none") } else { json!(bound) }, "caller_left_cursor_at": cursor, "executions": ex.executions, "max_decisions": ex.max_decisions, "max_preemptions_used": ex.max_preemptions_used, "capped_at": ex.capped_at, "threads_found_blocked_outside_the_interposed_calls": ex.blocked_events, "executions_skipped_because_not_reproducible": ex.diverged}));
                for c in &distinct {
                    st.nontrivial(&("sys", si, c));
                }
                let s0 = st.state(&("sys", si));
                let s1 = st.state(&("sys-result", bad.is_none()));
                st.transition(s0, 0, s1);
                st.outcome(format!("threads-sharing-one-file/{}", if bad.is_none() { "ok" } else { "bad" }));
            }
            if let Some((choices, msg)) = bad {
                if prop == "C18" {
                    let (ranges, via_serve) = (ranges.clone(), *via_serve);
                    st.violation((1 << 59) + si as u64, "streams-on-threads".into(), format!("streams of one entity drained on {} threads{}: {msg}", ranges.len(), if via_serve { " (through serve)" } else { "" }), move || json!({"engine": "fs_mc", "what": "threads", "ranges": ranges, "choices": choices}));
                }
            }
        }
        // the reads must have gone through the interposed calls, or nothing was interleaved
        if !calls.iter().any(|c| *c != "start") || total_exec < 10 {
            eprintln!("MACHINERY ERROR: no file system call of the subject was seen by the interposed wrappers ({calls:?}, {total_exec} executions): the interleaving family would be vacuous");
            std::process::exit(2);
        }
        run.extra.insert("threads_sharing_one_file".into(), json!({"calls_interposed": calls, "shapes": sys_info}));
        // Environment answers a local file never gives: a SHORT read (fewer bytes than asked for)
        // or a failing read (EIO, EINTR, EAGAIN) at one read call of the stream, every call in turn.
        // A short read must not show: same bytes, clean end. A failed read either surfaces as an
        // error with a correct prefix before it, or is retried: never a clean end short of the
        // range, never other bytes.
        {
            use crate::sysched::{with_injection, Inj};
            let crf = Crf::new(File::open(&path).unwrap(), HeaderMap::new()).unwrap();
            let ranges: Vec<(u64, u64)> = vec![(0, 200_001), (65_530, 131_080), (5, 6), (0, 65_536), (1, 131_074)];
            let mut n_inj = 0u64;
            let mut judge = |st: &mut Stats, r: (u64, u64), via: bool, plan: &str, got: &(Vec<u8>, String), must_complete: bool, may_fail: bool| {
                let want = content_vec(r.0, (r.1 - r.0) as usize);
                let (bytes, term) = got;
                let verdict = if term == "end" {
                    if *bytes == want {
                        let _ = may_fail; // a failed read that is retried successfully also yields exactly the bytes
                        "ok".to_string()
                    } else if bytes.len() < want.len() && want.starts_with(bytes) {
                        format!("clean end after {} of {} bytes", bytes.len(), want.len())
                    } else {
                        format!("wrong bytes ({} delivered, {} expected)", bytes.len(), want.len())
                    }
                } else if term.starts_with("err:") {
                    if must_complete {
                        format!("{term} after {} bytes although every read succeeded", bytes.len())
                    } else if !want.starts_with(bytes) {
                        format!("{term}, but the bytes before it are not a prefix of the range")
                    } else {
                        "ok".to_string()
                    }
                } else {
                    format!("terminal event {term} after {} bytes", bytes.len())
                };
                st.evaluations += 1;
                st.nontrivial(&("inj", r, via, plan));
                let s0 = st.state(&("inj", plan.split(':').next().unwrap_or("").to_string(), via));
                let s1 = st.state(&("inj-result", verdict == "ok"));
                st.transition(s0, 0, s1);
                st.outcome(format!("read-answer/{}/{}", plan.split(':').next().unwrap_or(""), if verdict == "ok" { "ok" } else { "bad" }));
                if verdict != "ok" && prop == "C18" {
                    let plan = plan.to_string();
                    st.violation((1 << 60) + r.0, format!("read-answer:{}", plan.split(':').next().unwrap_or("")), format!("range {}..{} of a 200001-byte file{}, {plan}: {verdict}", r.0, r.1, if via { " through serve()" } else { "" }), move || json!({"engine": "fs_mc", "what": "read-answers", "range": [r.0, r.1], "via_serve": via, "plan": plan}));
                }
            };
            for &r in &ranges {
                for via in [false, true] {
                    let (base, calls) = with_injection(u32::MAX, Inj::Short(1), drain(crf.clone(), r, via));
                    judge(&mut st, r, via, "none", &base, true, false);
                    if calls == 0 {
                        eprintln!("MACHINERY ERROR: the reads of a stream were not seen by the interposed wrappers");
                        std::process::exit(2);
                    }
                    let asked = |i: u32| -> usize { std::cmp::min(65_536u64, (r.1 - r.0).saturating_sub(65_536 * i as u64)) as usize };
                    for i in 0..calls {
                        let n = asked(i).max(1);
                        let mut shorts = vec![1usize, n / 2, n.saturating_sub(1), 4096, 65_535];
                        shorts.retain(|m| *m >= 1 && *m < n);
                        shorts.sort();
                        shorts.dedup();
                        for m in shorts {
                            let (o, _) = with_injection(i, Inj::Short(m), drain(crf.clone(), r, via));
                            judge(&mut st, r, via, &format!("short:read call {i} returns {m} bytes"), &o, true, false);
                            n_inj += 1;
                        }
                        for (name, e, may_retry) in [("eio", libc::EIO, false), ("eintr", libc::EINTR, true), ("eagain", libc::EAGAIN, true)] {
                            let (o, _) = with_injection(i, Inj::Errno(e), drain(crf.clone(), r, via));
                            judge(&mut st, r, via, &format!("{name}:read call {i} fails with errno {e}"), &o, false, may_retry);
                            n_inj += 1;
                        }
                    }
                }
            }
            run.extra.insert("read_answers_injected".into(), json!({"executions": n_inj, "answers": "short read of 1 / half / n-1 / 4096 / 65535 bytes, EIO, EINTR, EAGAIN at every read call of the stream in turn", "ranges": ranges, "vectored_reads": "not injected (readv / preadv are scheduling points only)"}));
        }
        let _ = std::fs::remove_file(&path);
    }
    // non-regular files are refused -- by both constructors
    for (what, p) in [("directory", base.clone()), ("char-device", PathBuf::from("/dev/null")), ("directory/with-metadata", base.clone()), ("char-device/with-metadata", PathBuf::from("/dev/null"))] {
        st.evaluations += 1;
        st.nontrivial(&what);
        let s0 = st.state(&("ctor", what));
        let with_md = what.ends_with("with-metadata");
        let r = File::open(&p).map_err(|e| e.to_string()).and_then(|f| {
            if with_md {
                let md = f.metadata().map_err(|e| e.to_string())?;
                Crf::new_with_metadata(f, &md, HeaderMap::new()).map(|_| ()).map_err(|e| e.to_string())
            } else {
                Crf::new(f, HeaderMap::new()).map(|_| ()).map_err(|e| e.to_string())
            }
        });
        let s1 = st.state(&("ctor-result", what, r.is_ok()));
        st.transition(s0, 0, s1);
        st.outcome(format!("ctor-{what}-{}", if r.is_ok() { "accepted" } else { "refused" }));
        if r.is_ok() && prop == "C18" {
            st.violation(1 << 60, format!("non-regular-accepted:{what}"), format!("ChunkedReadFile::new accepted a {what}"), || json!({"engine": "fs_mc", "what": "constructor", "kind": what}));
        }
    }
    let mut total = total;
    total.merge(st);
    total
}

// -------------------------------------------------------------------------------------------
// C19

const SEGS: [&str; 9] = ["a", "sub", "..", ".", "...", "..a", "a..", "", "secret"];
const AES: [Option<&str>; 6] = [None, Some("gzip"), Some("gzip;q=0"), Some("identity;q=1, gzip;q=0.5"), Some("*"), Some("br, gzip;q=0.001")];
/// Other request headers that may sit in the map handed to `FsDir::get` next to Accept-Encoding
/// (the rule for the .gz sibling does not mention any of them).
const OTHER_HEADERS: [&[(&str, &str)]; 4] = [&[], &[("range", "bytes=0-")], &[("if-none-match", "\"x\""), ("if-range", "\"x\""), ("range", "bytes=1-2,4-5")], &[("user-agent", "curl/8"), ("cookie", "a=b"), ("accept", "*/*"), ("if-modified-since", "Sun, 06 Nov 1994 08:49:37 GMT")]];

struct Tree {
    _root: tempfile::TempDir,
    base: PathBuf,
    inside: std::collections::HashSet<(u64, u64)>,
    secret_outside: (u64, u64),
}

fn build_tree() -> Tree {
    let root = tempfile::Builder::new().prefix("c19-").tempdir_in(tmp_root()).expect("tempdir");
    let base = root.path().join("base");
    std::fs::create_dir_all(base.join("sub/sub")).unwrap();
    std::fs::create_dir_all(base.join("sub/a.gz")).unwrap();
    std::fs::create_dir_all(base.join("sub/.../x")).unwrap();
    let w = |p: &str, c: &str| std::fs::write(base.join(p), c).unwrap();
    w("a", "plain a");
    w("a.gz", "gz a");
    w("sub/a", "sub a");
    w("sub/sub/a", "sub sub a");
    w("sub/sub/a.gz", "sub sub a gz");
    w("...", "three dots");
    w("..a", "dot dot a");
    w("a..", "a dot dot");
    w("a...gz", "a dot dot gz");
    w("sub/secret", "inner secret");
    w("secret.gz", "secret gz inside");
    // a .gz whose plain file does not exist
    w("orphan.gz", "gz without a plain file");
    w("sub/orphan2.gz", "another one");
    // a request path that itself ends in .gz, with and without a sibling of its own
    w("a.gz.gz", "gz of a.gz");
    w("sub/b.tar.gz", "tarball");
    w("sub/b.tar.gz.gz", "gz of tarball");
    // empty files on either side
    w("empty", "");
    w("empty.gz", "");
    w("e2", "");
    w("e2.gz", "gz of e2");
    // names with a space, a backslash, a percent escape, non-ASCII letters
    w("with space", "sp");
    w("with space.gz", "sp gz");
    w("caf\u{e9}", "utf8 name");
    w("caf\u{e9}.gz", "utf8 name gz");
    w("..\\secret", "backslash is an ordinary byte");
    w("%2e%2e", "percent is an ordinary byte");
    // modification times in both orders and equal (the rule has no timestamp condition)
    let set = |p: &str, secs: u64| {
        std::fs::OpenOptions::new().write(true).open(base.join(p)).unwrap().set_modified(std::time::UNIX_EPOCH + std::time::Duration::from_secs(secs)).unwrap();
    };
    set("a", 1_600_000_000);
    set("a.gz", 946_684_800); // .gz older than the plain file
    set("sub/sub/a", 946_684_800);
    set("sub/sub/a.gz", 1_600_000_000); // .gz newer
    set("e2", 1_500_000_000);
    set("e2.gz", 1_500_000_000); // equal
    set("with space", 1_600_000_001);
    set("with space.gz", 1_600_000_000); // older by one second
    // long names: NAME_MAX is 255, so `<name>.gz` cannot exist for names of 253..255 bytes
    for n in [250usize, 251, 252, 253, 255] {
        w(&"n".repeat(n), "long name");
    }
    w(&format!("{}.gz", "n".repeat(250)), "long name gz");
    w(&format!("{}.gz", "n".repeat(252)), "long name gz 255");
    // a path that is long only in total (short segments)
    let deep: String = (0..5).map(|_| "d".repeat(50)).collect::<Vec<_>>().join("/");
    std::fs::create_dir_all(base.join(&deep)).unwrap();
    w(&format!("{deep}/abc"), "deep plain");
    w(&format!("{deep}/abc.gz"), "deep gz");
    std::fs::write(root.path().join("secret"), "OUTSIDE").unwrap();
    std::fs::write(root.path().join("secret.gz"), "OUTSIDE GZ").unwrap();
    let mut inside = std::collections::HashSet::new();
    fn walk(p: &Path, s: &mut std::collections::HashSet<(u64, u64)>) {
        let m = std::fs::metadata(p).unwrap();
        s.insert((m.dev(), m.ino()));
        if m.is_dir() {
            for e in std::fs::read_dir(p).unwrap() {
                walk(&e.unwrap().path(), s);
            }
        }
    }
    walk(&base, &mut inside);
    let m = std::fs::metadata(root.path().join("secret")).unwrap();
    Tree { base, inside, secret_outside: (m.dev(), m.ino()), _root: root }
}

thread_local! {
    static SECRET_ABS: std::cell::RefCell<String> = const { std::cell::RefCell::new(String::new()) };
}

fn panic_msg_ref(p: &Box<dyn std::any::Any + Send>) -> String {
    if let Some(s) = p.downcast_ref::<&str>() {
        s.to_string()
    } else if let Some(s) = p.downcast_ref::<String>() {
        s.clone()
    } else {
        "<non-string panic>".into()
    }
}

fn tree_secret_abs() -> String {
    SECRET_ABS.with(|s| s.borrow().clone())
}

fn show_path(p: &str) -> String {
    if p.len() > 80 {
        format!("{:?}...({} bytes)", p.chars().take(40).collect::<String>(), p.len())
    } else {
        format!("{p:?}")
    }
}

fn lexical_reject(p: &str) -> bool {
    p.starts_with('/') || p.contains('\0') || p.split('/').any(|s| s == "..")
}

pub fn run_c19(run: &mut Run) -> Stats {
    let tier = run.tier;
    let kmax = tier.pick(3, 5);
    run.rule = format!("every path of 1..{kmax} segments over {{a, sub, .., ., ..., ..a, a.., '', secret}} joined by '/', with {{no, leading, trailing, both}} extra slash, with a NUL inserted at every byte position (and none), x Accept-Encoding in {{absent, gzip, gzip;q=0, identity;q=1 gzip;q=0.5, *, br gzip;q=0.001}} (next to other request headers in the map: none / Range / If-None-Match + If-Range + Range / User-Agent + Cookie + Accept + If-Modified-Since, rotated) x auto_gzip on/off, plus every file of the tree by name (names ending in .gz with and without a .gz.gz sibling, empty files, names with a space / backslash / percent escape / non-ASCII letter), against a tree with plain files, .gz siblings older than, newer than and as old as their plain file, a .gz directory, names made of dots, and a `secret` file outside the base. Oracle: lexical rule (leading '/', NUL, '..' segment) => Err(InvalidInput); otherwise (device, inode) of the returned node == std::fs::metadata(base/path) -- or of base/path.gz when auto_gzip && the independent evaluator prefers gzip && that sibling exists and is not a directory -- and the same error kind when std fails; the inode must lie inside the base; encoding()/add_encoding_headers report gzip exactly when substituted and Vary exactly when auto_gzip. non-trivial = distinct (path, Accept-Encoding, auto_gzip)");
    run.bounds = json!({"max_segments": kmax, "segments": SEGS, "accept_encodings": AES.len()});
    run.assumptions.push("std::fs on the sandbox file system is the reference; no symlinks in the tree (the crate documents that it does not check them)".into());
    let tree = build_tree();
    // The base directory itself must open (under the watchdog: a constructor that loops is a
    // finding, too). Without it nothing else can be judged.
    {
        let base = tree.base.clone();
        let case: crate::report::CaseFn = Box::new(move || json!({"engine": "fs_mc", "what": "for_path", "path": base.to_string_lossy()}));
        let opened = crate::report::watched(case, || catch_unwind(AssertUnwindSafe(|| http_serve::dir::FsDir::builder().auto_gzip(true).for_path(&tree.base).map(|_| ()))));
        let problem = match opened {
            Ok(Ok(())) => None,
            Ok(Err(e)) => Some(format!("failed: {e}")),
            Err(p) => Some(format!("panicked: {}", panic_msg(p))),
        };
        if let Some(msg) = problem {
            let mut st = Stats::new();
            st.evaluations = 1;
            let s0 = st.state(&"for_path");
            let s1 = st.state(&"for_path-failed");
            st.transition(s0, 0, s1);
            st.nontrivial(&"for_path");
            st.nontrivial(&"for_path-failed");
            if run.prop == "C19" {
                st.violation(0, "base-directory-does-not-open".into(), format!("FsDir::builder().for_path({:?}) on an existing directory {msg}: no path below it can be opened", tree.base), || json!({"engine": "fs_mc", "what": "for_path"}));
            }
            return st;
        }
    }
    // Which error kinds does this build use to refuse hostile paths? (The statement does not fix
    // the kind; a path that is NOT hostile must not be refused in that way, though.)
    let reject_kinds: std::sync::Mutex<std::collections::HashSet<std::io::ErrorKind>> = Default::default();
    {
        let rt = tokio::runtime::Builder::new_current_thread().build().expect("runtime");
        let d = http_serve::dir::FsDir::builder().auto_gzip(true).for_path(&tree.base).expect("open base");
        for hostile in ["/etc/passwd", "a/../a", "..", "a\0b"] {
            if let Ok(Err(e)) = catch_unwind(AssertUnwindSafe(|| rt.block_on(d.clone().get(hostile, &HeaderMap::new())))) {
                reject_kinds.lock().unwrap().insert(e.kind());
            }
        }
        // kinds that ordinary lookups legitimately produce are never "the hostile kind"
        reject_kinds.lock().unwrap().remove(&std::io::ErrorKind::NotFound);
    }
    SECRET_ABS.with(|s| *s.borrow_mut() = tree._root.path().join("secret").to_string_lossy().to_string());
    // enumerate base paths
    let mut paths: Vec<String> = Vec::new();
    let mut level: Vec<String> = SEGS.iter().map(|s| s.to_string()).collect();
    for k in 1..=kmax {
        for p in &level {
            for (lead, trail) in [(false, false), (true, false), (false, true), (true, true)] {
                paths.push(format!("{}{}{}", if lead { "/" } else { "" }, p, if trail { "/" } else { "" }));
            }
        }
        if k < kmax {
            let mut next = Vec::new();
            for p in &level {
                for s in SEGS {
                    next.push(format!("{p}/{s}"));
                }
            }
            level = next;
        }
    }
    for n in [250usize, 251, 252, 253, 254, 255, 256] {
        paths.push("n".repeat(n));
        paths.push(format!("sub/../{}", "n".repeat(n)));
    }
    let deep: String = (0..5).map(|_| "d".repeat(50)).collect::<Vec<_>>().join("/");
    for tail in ["abc", "abc.gz", "missing", "", ".."] {
        paths.push(format!("{deep}/{tail}"));
    }
    // longer than PATH_MAX (4096) in total, and just below it
    paths.push(format!("{}a", "sub/../".repeat(600)));
    paths.push(format!("{}a", "./".repeat(2045)));
    paths.push(format!("{}a", "./".repeat(2100)));
    paths.push(format!("{}missing", "sub/sub/../../".repeat(300)));
    // every file of the tree by name (also names ending in .gz), plus a few names that do not exist
    for extra in ["orphan", "orphan.gz", "sub/orphan2", "sub/orphan2/", "orphan/", "a.gz", "a.gz.gz", "a.gz.gz.gz", "sub/b.tar.gz", "sub/b.tar.gz.gz", "sub/b.tar", "empty", "empty.gz", "e2", "e2.gz", "with space", "with space.gz", "caf\u{e9}", "caf\u{e9}.gz", "caf\u{e8}", "..\\secret", "a\\..\\a", "%2e%2e", "%2e%2e/secret", "secret.gz", "a...gz", "sub/a.gz", "sub/a.gz/", "sub/sub/a.gz", "a.GZ", "a.gz/", ".gz", "sub/.gz"] {
        paths.push(extra.to_string());
    }
    // the absolute path of the outside secret, smuggled behind prefixes a sloppy normaliser strips
    let abs = tree_secret_abs().trim_start_matches('/').to_string();
    for pre in [".//", "./", "././/", "a/..//", "sub/.//", ".///"] {
        paths.push(format!("{pre}{abs}"));
    }
    paths.sort();
    paths.dedup();
    run.extra.insert("base_paths".into(), json!(paths.len()));
    // Other runtime contexts than the current-thread runtime of the sweep below: a worker of a
    // multi-threaded runtime, its block_on thread, and a LocalSet on it. A handful of lookups,
    // compared with the sweep's own reference (same inode, same error kind).
    let mut ctx_stats = Stats::new();
    {
        let rt = tokio::runtime::Builder::new_multi_thread().worker_threads(2).enable_time().build().expect("runtime");
        let d = http_serve::dir::FsDir::builder().auto_gzip(true).for_path(&tree.base).expect("open base");
        let mut gz = HeaderMap::new();
        gz.insert("accept-encoding", http::HeaderValue::from_static("gzip"));
        let lookups: Vec<(&str, bool)> = vec![("a", true), ("sub/a", false), ("missing", false), ("sub", false), ("a/../a", false), ("sub/sub/a", true)];
        for ctx in ["block_on", "worker", "local-set", "local-set/spawn_local"] {
            for (p, with_gz) in &lookups {
                let hdrs = if *with_gz { gz.clone() } else { HeaderMap::new() };
                let (d2, p2, h2) = (d.clone(), p.to_string(), hdrs.clone());
                let r = catch_unwind(AssertUnwindSafe(|| match ctx {
                    "block_on" => rt.block_on(async { d2.get(&p2, &h2).await.map(|n| (n.metadata().dev(), n.metadata().ino(), n.encoding().is_some())).map_err(|e| e.kind()) }),
                    "worker" => rt.block_on(async { tokio::spawn(async move { d2.get(&p2, &h2).await.map(|n| (n.metadata().dev(), n.metadata().ino(), n.encoding().is_some())).map_err(|e| e.kind()) }).await.expect("task") }),
                    "local-set" => {
                        let ls = tokio::task::LocalSet::new();
                        ls.block_on(&rt, async { d2.get(&p2, &h2).await.map(|n| (n.metadata().dev(), n.metadata().ino(), n.encoding().is_some())).map_err(|e| e.kind()) })
                    }
                    _ => {
                        let ls = tokio::task::LocalSet::new();
                        ls.block_on(&rt, async { tokio::task::spawn_local(async move { d2.get(&p2, &h2).await.map(|n| (n.metadata().dev(), n.metadata().ino(), n.encoding().is_some())).map_err(|e| e.kind()) }).await.expect("task") })
                    }
                }));
                ctx_stats.evaluations += 1;
                ctx_stats.nontrivial(&("ctx", ctx, p, with_gz));
                // reference: the same call under the current-thread runtime
                let rt0 = tokio::runtime::Builder::new_current_thread().build().expect("runtime");
                let want = rt0.block_on(async { d.clone().get(p, &hdrs).await.map(|n| (n.metadata().dev(), n.metadata().ino(), n.encoding().is_some())).map_err(|e| e.kind()) });
                let verdict = match &r {
                    Err(pn) => format!("panicked: {}", panic_msg_ref(pn)),
                    Ok(got) if *got == want => "ok".to_string(),
                    Ok(got) => format!("{got:?}, but {want:?} under a current-thread runtime"),
                };
                let s0 = ctx_stats.state(&("ctx", ctx));
                let s1 = ctx_stats.state(&("ctx-result", verdict == "ok"));
                ctx_stats.transition(s0, 0, s1);
                ctx_stats.outcome(format!("runtime-context/{}", if verdict == "ok" { "ok" } else { "bad" }));
                if verdict != "ok" && run.prop == "C19" {
                    ctx_stats.violation((1 << 56) + ctx.len() as u64, format!("runtime-context:{ctx}"), format!("FsDir::get({p:?}) called from {ctx} of a multi-threaded tokio runtime: {verdict}"), || json!({"engine": "fs_mc", "what": "runtime-context", "context": ctx, "path": p}));
                }
            }
        }
    }
    // A CHANGING tree under ONE long-lived FsDir: after every change (a .gz sibling appears,
    // disappears, is replaced; the plain file is replaced or removed; a sibling becomes a directory;
    // a directory becomes a file) every lookup through the long-lived instance must give what a
    // FsDir opened just now gives -- same inode, same encoding flag, same error kind. Nothing an
    // earlier lookup learned may outlive the change (differential oracle, no expected values).
    {
        let hdir = tmp_root().join(format!("c19-history-{}", std::process::id()));
        let _ = std::fs::remove_dir_all(&hdir);
        std::fs::create_dir_all(hdir.join("sub")).unwrap();
        for f in ["f", "g", "sub/f"] {
            std::fs::write(hdir.join(f), format!("plain {f}")).unwrap();
        }
        let rt0 = tokio::runtime::Builder::new_current_thread().build().expect("runtime");
        let long = http_serve::dir::FsDir::builder().auto_gzip(true).for_path(&hdir).expect("open base");
        let mut gz = HeaderMap::new();
        gz.insert("accept-encoding", http::HeaderValue::from_static("gzip"));
        let plain = HeaderMap::new();
        type Act = Box<dyn Fn(&Path)>;
        let acts: Vec<(&str, Act)> = vec![
            ("nothing yet", Box::new(|_| {})),
            ("f.gz created", Box::new(|b| std::fs::write(b.join("f.gz"), "gz 1").unwrap())),
            ("f.gz removed", Box::new(|b| std::fs::remove_file(b.join("f.gz")).unwrap())),
            ("f.gz created again", Box::new(|b| std::fs::write(b.join("f.gz"), "gz 2 longer").unwrap())),
            ("f replaced by a new file", Box::new(|b| {
                std::fs::rename(b.join("f"), b.join("f.old")).unwrap();
                std::fs::write(b.join("f"), "plain f, second version").unwrap();
            })),
            ("f removed (f.gz stays)", Box::new(|b| std::fs::remove_file(b.join("f")).unwrap())),
            ("g.gz created as a directory", Box::new(|b| std::fs::create_dir(b.join("g.gz")).unwrap())),
            ("g.gz directory replaced by a file", Box::new(|b| {
                std::fs::remove_dir(b.join("g.gz")).unwrap();
                std::fs::write(b.join("g.gz"), "gz g").unwrap();
            })),
            ("sub/f.gz created", Box::new(|b| std::fs::write(b.join("sub/f.gz"), "gz sub f").unwrap())),
            ("directory sub replaced by a file", Box::new(|b| {
                std::fs::remove_dir_all(b.join("sub")).unwrap();
                std::fs::write(b.join("sub"), "now a file").unwrap();
            })),
            ("f created again", Box::new(|b| std::fs::write(b.join("f"), "plain f, third version").unwrap())),
        ];
        let lookups = ["f", "g", "sub/f", "sub", "f.gz", "g.gz"];
        for (ai, (label, act)) in acts.iter().enumerate() {
            act(&hdir);
            let fresh = http_serve::dir::FsDir::builder().auto_gzip(true).for_path(&hdir).expect("open base");
            // twice: the second round sees whatever the first one left behind in the instance
            for round in 0..2 {
                for p in lookups {
                    for (hn, h) in [("gzip", &gz), ("none", &plain)] {
                        let get = |d: &std::sync::Arc<http_serve::dir::FsDir>| {
                            catch_unwind(AssertUnwindSafe(|| rt0.block_on(async { d.clone().get(p, h).await.map(|n| (n.metadata().dev(), n.metadata().ino(), n.metadata().len(), n.encoding().is_some())).map_err(|e| e.kind()) }))).map_err(|pn| panic_msg_ref(&pn))
                        };
                        let got = get(&long);
                        let want = get(&fresh);
                        ctx_stats.evaluations += 2;
                        ctx_stats.nontrivial(&("tree-history", ai, round, p, hn));
                        let s0 = ctx_stats.state(&("tree-history", ai));
                        let s1 = ctx_stats.state(&("tree-history-result", got == want));
                        ctx_stats.transition(s0, round as u64, s1);
                        ctx_stats.outcome(format!("changing-tree/{}", if got == want { "same-as-fresh-instance" } else { "differs" }));
                        if got != want && run.prop == "C19" {
                            ctx_stats.violation((1 << 57) + ai as u64, "stale-after-tree-change".into(), format!("after '{label}' (step {ai} of a history on one FsDir), get({p:?}) with Accept-Encoding {hn}: the long-lived instance gives {got:?}, an instance opened now gives {want:?} (dev, inode, length, encoding flag / error kind)"), || json!({"engine": "fs_mc", "what": "tree-history"}));
                        }
                    }
                }
            }
        }
        let _ = std::fs::remove_dir_all(&hdir);
    }
    let prop = run.prop.clone();
    let nthreads = threads();
    let chunk = paths.len().div_ceil(nthreads * 4);
    let nchunks = paths.len().div_ceil(chunk);
    let mut total = par_for(nchunks as u64, nthreads, |ci, st| {
        let rt = tokio::runtime::Builder::new_current_thread().build().expect("runtime");
        let dirs = [
            http_serve::dir::FsDir::builder().auto_gzip(false).for_path(&tree.base).expect("open base"),
            http_serve::dir::FsDir::builder().auto_gzip(true).for_path(&tree.base).expect("open base"),
        ];
        let lo = ci as usize * chunk;
        for (pi, p0) in paths[lo..(lo + chunk).min(paths.len())].iter().enumerate() {
            // NUL variants: none + every byte position (incl. the end)
            let mut variants: Vec<String> = vec![p0.clone()];
            let nul_step = if p0.len() > 40 { 97 } else { 1 };
            for pos in (0..=p0.len()).step_by(nul_step) {
                if !p0.is_char_boundary(pos) {
                    continue;
                }
                let mut v = p0.clone();
                v.insert(pos, '\0');
                variants.push(v);
            }
            for (vi, p) in variants.iter().enumerate() {
                for (ai, ae) in AES.iter().enumerate() {
                    // NUL variants only with two Accept-Encoding values
                    if vi > 0 && ai > 1 {
                        break;
                    }
                    for (gi, fsdir) in dirs.iter().enumerate() {
                        let auto_gzip = gi == 1;
                        let order = ((lo + pi) as u64) << 16 | (vi as u64) << 8 | (ai as u64) << 1 | gi as u64;
                        let mut hdrs = HeaderMap::new();
                        // other headers: rotate through the sets (all of them for existing files)
                        let oh = OTHER_HEADERS[(pi + ai + vi) % OTHER_HEADERS.len()];
                        for (k, v) in oh {
                            hdrs.insert(http::header::HeaderName::from_static(k), http::HeaderValue::from_static(v));
                        }
                        if let Some(a) = ae {
                            hdrs.insert("accept-encoding", http::HeaderValue::from_static(a));
                        }
                        let (pc, aec) = (p.clone(), ae.map(|a| a.to_string()));
                        let case: crate::report::CaseFn = Box::new(move || json!({"engine": "fs_mc", "what": "get", "path": crate::report::bytes_json(pc.as_bytes()), "accept_encoding": aec, "auto_gzip": auto_gzip}));
                        let r = crate::report::watched(case, || catch_unwind(AssertUnwindSafe(|| rt.block_on(fsdir.clone().get(p, &hdrs)))));
                        st.evaluations += 1;
                        st.nontrivial(&(p, ai, gi));
                        let mut fs: Vec<Finding> = Vec::new();
                        let reject = lexical_reject(p);
                        // The reference opens base + "/" + path by its ABSOLUTE name, FsDir opens
                        // the path relative to a directory handle: between the two lies a band of
                        // lengths (just under PATH_MAX = 4096) where only the reference fails.
                        // There only containment, rejection and totality are judged.
                        let ref_unavailable = p.len() + 4 < 4096 && tree.base.as_os_str().len() + 1 + p.len() + 4 >= 4096;
                        if ref_unavailable {
                            st.count("paths_where_the_absolute_reference_exceeds_PATH_MAX", 1);
                        }
                        let outcome;
                        match r {
                            Err(pn) => {
                                outcome = "panic".to_string();
                                fs.push(fnd(&["C19"], "panic", format!("FsDir::get({p:?}) panicked: {}", panic_msg(pn))));
                            }
                            Ok(Err(e)) => {
                                outcome = format!("err:{:?}", e.kind());
                                if reject {
                                    // "returns an error": the statement does not say which kind
                                    st.count(&format!("reject_kind:{:?}", e.kind()), 1);
                                } else if !p.is_empty() && !ref_unavailable {
                                    // must fail the way opening that file fails
                                    match std::fs::metadata(tree.base.join(p)) {
                                        Ok(_) => {
                                            // std can open it. The only legitimate reason to fail: the .gz
                                            // sibling that must be substituted exists but cannot be opened.
                                            let gz_exists_but_unopenable = auto_gzip
                                                && prefers_gzip(ae.map(|a| a.as_bytes())) == Some(true)
                                                && std::fs::symlink_metadata(tree.base.join(format!("{p}.gz"))).is_ok()
                                                && File::open(tree.base.join(format!("{p}.gz"))).is_err();
                                            if !gz_exists_but_unopenable {
                                                fs.push(fnd(&["C19"], "spurious-error", format!("{} names an existing node but get() (Accept-Encoding {ae:?}, auto_gzip {auto_gzip}) failed with {:?} ({e})", show_path(p), e.kind())));
                                            }
                                        }
                                        Err(_) if auto_gzip
                                            && prefers_gzip(ae.map(|a| a.as_bytes())) == Some(true)
                                            && matches!(std::fs::metadata(tree.base.join(format!("{p}.gz"))), Ok(m) if !m.is_dir())
                                            && File::open(tree.base.join(format!("{p}.gz"))).is_ok() =>
                                        {
                                            // the plain path does not exist, but the sibling that must be
                                            // substituted does: the answer is that sibling, not an error
                                            fs.push(fnd(&["C19"], "substitution-expected", format!("{} has no plain file but an openable {}.gz, Accept-Encoding {ae:?} prefers gzip and auto_gzip is on, yet get() failed with {:?}", show_path(p), show_path(p), e.kind())));
                                        }
                                        Err(se) => {
                                            if se.kind() != e.kind() && reject_kinds.lock().unwrap().contains(&e.kind()) {
                                                fs.push(fnd(&["C19"], "spurious-reject", format!("{p:?} is not absolute, has no NUL and no '..' segment, yet was rejected the way hostile paths are ({:?}: {e})", e.kind())));
                                            } else if se.kind() != e.kind() {
                                                fs.push(fnd(&["C19"], "error-kind", format!("{p:?}: get() failed with {:?}, opening base/path fails with {:?}", e.kind(), se.kind())));
                                            }
                                        }
                                    }
                                }
                            }
                            Ok(Ok(node)) => {
                                let id = (node.metadata().dev(), node.metadata().ino());
                                outcome = format!("ok:{}", if node.encoding().is_some() { "gz" } else { "plain" });
                                if id == tree.secret_outside || !tree.inside.contains(&id) {
                                    fs.push(fnd(&["C19"], "escape", format!("get({p:?}) returned a node outside the base directory (dev/inode {id:?})")));
                                }
                                if reject {
                                    fs.push(fnd(&["C19"], "accepted-hostile", format!("{p:?} (absolute / NUL / '..' segment) was accepted")));
                                } else if !p.is_empty() && !ref_unavailable {
                                    let plain = std::fs::metadata(tree.base.join(p));
                                    let gz = std::fs::metadata(tree.base.join(format!("{p}.gz")));
                                    let pref = prefers_gzip(ae.map(|a| a.as_bytes()));
                                    let subst = auto_gzip && pref == Some(true) && matches!(&gz, Ok(m) if !m.is_dir());
                                    let want = if subst { gz.as_ref().ok() } else { plain.as_ref().ok() };
                                    match want {
                                        None => fs.push(fnd(&["C19"], "opened-nonexistent", format!("get({p:?}) succeeded but std::fs cannot open the corresponding path"))),
                                        Some(m) => {
                                            if (m.dev(), m.ino()) != id {
                                                fs.push(fnd(&["C19"], "wrong-file", format!("get({p:?}) (Accept-Encoding {ae:?}, auto_gzip {auto_gzip}) opened dev/inode {id:?}, expected {:?} ({})", (m.dev(), m.ino()), if subst { "the .gz sibling" } else { "the plain path" })));
                                            }
                                        }
                                    }
                                    if node.encoding().is_some() != subst {
                                        fs.push(fnd(&["C19"], "encoding-flag", format!("get({p:?}): encoding() = {:?}, substitution expected = {subst}", node.encoding())));
                                    }
                                    let mut h = HeaderMap::new();
                                    node.add_encoding_headers(&mut h);
                                    let ce = h.get("content-encoding").map(|v| v.as_bytes() == b"gzip").unwrap_or(false);
                                    let vary = h.get("vary").map(|v| v.as_bytes().eq_ignore_ascii_case(b"accept-encoding")).unwrap_or(false);
                                    if ce != subst || h.get_all("content-encoding").iter().count() > 1 {
                                        fs.push(fnd(&["C19"], "content-encoding-header", format!("get({p:?}): add_encoding_headers Content-Encoding gzip = {ce}, substitution = {subst}")));
                                    }
                                    if vary != auto_gzip {
                                        fs.push(fnd(&["C19"], "vary-header", format!("get({p:?}): Vary: accept-encoding = {vary}, auto_gzip = {auto_gzip}")));
                                    }
                                    // ... also when the map already holds entries of its own
                                    let mut h2 = HeaderMap::new();
                                    h2.insert("vary", http::HeaderValue::from_static("origin"));
                                    h2.insert("cache-control", http::HeaderValue::from_static("max-age=60"));
                                    node.add_encoding_headers(&mut h2);
                                    let vary2 = h2.get_all("vary").iter().any(|v| String::from_utf8_lossy(v.as_bytes()).to_ascii_lowercase().split(',').any(|t| t.trim() == "accept-encoding"));
                                    let ce2 = h2.get("content-encoding").map(|v| v.as_bytes() == b"gzip").unwrap_or(false);
                                    if vary2 != auto_gzip || ce2 != subst {
                                        fs.push(fnd(&["C19"], "vary-header", format!("get({p:?}): add_encoding_headers on a map that already holds `Vary: origin`: Vary names accept-encoding = {vary2} (auto_gzip = {auto_gzip}), Content-Encoding gzip = {ce2} (substitution = {subst})")));
                                    }
                                    if node.encoding_varies() != auto_gzip {
                                        fs.push(fnd(&["C19"], "vary-header", format!("get({p:?}): encoding_varies() = {}, auto_gzip = {auto_gzip}", node.encoding_varies())));
                                    }
                                    // the handle the node gives out is the file its metadata describes
                                    let f = node.into_file();
                                    match f.metadata() {
                                        Ok(fm) if (fm.dev(), fm.ino()) == id => {}
                                        other => fs.push(fnd(&["C19"], "wrong-file", format!("get({p:?}): into_file() is not the file metadata() describes ({:?} vs {id:?})", other.map(|m| (m.dev(), m.ino())).ok()))),
                                    }
                                }
                            }
                        }
                        let s0 = st.state(&("path", reject, p.contains('\0'), p.starts_with('/'), ai, gi));
                        let s1 = st.state(&("result", outcome.clone()));
                        st.transition(s0, 0, s1);
                        st.outcome(format!("{}/{outcome}", if reject { "hostile" } else { "benign" }));
                        st.sample(1, || json!({"path": p, "accept_encoding": ae, "auto_gzip": auto_gzip, "outcome": outcome}));
                        for f in fs {
                            if f.props.contains(&prop.as_str()) {
                                st.violation(order, f.key.clone(), f.msg.clone(), || json!({"engine": "fs_mc", "what": "get", "path": crate::report::bytes_json(p.as_bytes()), "accept_encoding": ae, "auto_gzip": auto_gzip}));
                            }
                        }
                    }
                }
            }
        }
    });
    total.merge(ctx_stats);
    total
}

pub fn replay(case: &serde_json::Value, prop: &str) -> i32 {
    // fs cases are re-run as a whole family (they need the fixture tree / files)
    let mut run = Run::new(prop, "fs_mc", Tier::Quick);
    let st = if prop == "C19" { run_c19(&mut run) } else { run_c18(&mut run) };
    let want = case["what"].as_str().unwrap_or("");
    let mut bad = false;
    for (k, v) in &st.violations {
        let same = v.case["what"].as_str().unwrap_or("") == want;
        println!("{} {k}: {}", if same { "VIOLATED" } else { "(other case)" }, v.msg);
        bad = true;
    }
    if bad {
        1
    } else {
        println!("no violation of {prop}");
        0
    }
}
