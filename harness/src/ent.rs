//! Scripted harness `Entity`: the environment side of `serve`.
//!
//! Every `get_range` call is logged, and answered by a stream that plays a script chosen by
//! the explorer: data chunks of given sizes (consecutive entity bytes starting at the range
//! start), empty chunks, `Pending` (after waking the waker) and errors. A script whose data
//! sizes sum to the range length and that contains no `Err` honours the `Entity` contract; all
//! others are the fault alphabet of C07/C20.

use crate::vbuf::VBuf;
use futures_core::Stream;
use http::header::{HeaderMap, HeaderName, HeaderValue};
use std::ops::Range;
use std::pin::Pin;
use std::sync::{Arc, Mutex};
use std::task::{Context, Poll};
use std::time::SystemTime;

#[derive(Clone, Copy, Debug, PartialEq, Eq, Hash)]
pub enum Ev {
    /// A chunk of this many bytes (0 = empty chunk).
    Data(u64),
    /// `Poll::Pending` after `wake_by_ref`.
    Pending,
    /// `Some(Err(HErr::Scripted))`.
    Err,
}

#[derive(Clone, Copy, Debug, PartialEq, Eq, Hash)]
pub enum Tail {
    /// After the script: `None` forever (the premise of C20).
    Fused,
    /// After the script: the last event again, forever (a stream that never stops).
    Repeat,
    /// After the script: `None` ONCE; polling again after that panics (what
    /// `futures_util::stream::unfold` -- the combinator behind `ChunkedReadFile` -- does). Only
    /// used with honest scripts and without extra polls after the body's end.
    Strict,
}

#[derive(Clone, Debug, PartialEq, Eq, Hash)]
pub struct Script {
    pub evs: Vec<Ev>,
    pub tail: Tail,
}

impl Script {
    pub fn whole(n: u64) -> Script {
        Script {
            evs: vec![Ev::Data(n)],
            tail: Tail::Fused,
        }
    }
    pub fn of(evs: Vec<Ev>) -> Script {
        Script {
            evs,
            tail: Tail::Fused,
        }
    }
    pub fn data_sum(&self) -> u128 {
        self.evs
            .iter()
            .map(|e| if let Ev::Data(n) = e { *n as u128 } else { 0 })
            .sum()
    }
    pub fn has_err(&self) -> bool {
        self.evs.contains(&Ev::Err)
    }
    pub fn to_json(&self) -> serde_json::Value {
        let evs: Vec<serde_json::Value> = self
            .evs
            .iter()
            .map(|e| match e {
                Ev::Data(n) => serde_json::json!({"data": n.to_string()}),
                Ev::Pending => serde_json::json!("pending"),
                Ev::Err => serde_json::json!("err"),
            })
            .collect();
        serde_json::json!({"evs": evs, "tail": match self.tail { Tail::Fused => "fused", Tail::Repeat => "repeat", Tail::Strict => "strict" }})
    }
    pub fn from_json(v: &serde_json::Value) -> Script {
        let evs = v["evs"]
            .as_array()
            .expect("evs")
            .iter()
            .map(|e| {
                if let Some(s) = e.as_str() {
                    match s {
                        "pending" => Ev::Pending,
                        "err" => Ev::Err,
                        _ => panic!("bad ev"),
                    }
                } else {
                    Ev::Data(e["data"].as_str().expect("data").parse().expect("u64"))
                }
            })
            .collect();
        let tail = match v["tail"].as_str() {
            Some("repeat") => Tail::Repeat,
            Some("strict") => Tail::Strict,
            _ => Tail::Fused,
        };
        Script { evs, tail }
    }
}

/// Error type of harness entities. `Injected` is what the crate converts from `BoxError`
/// (its own too-short / too-long errors); `Scripted` is the entity's own failure.
#[derive(Debug, Clone, PartialEq, Eq)]
pub enum HErr {
    Scripted,
    Injected(String),
    Abort(u32),
}

impl From<http_serve::BoxError> for HErr {
    fn from(e: http_serve::BoxError) -> Self {
        HErr::Injected(e.to_string())
    }
}

#[derive(Default, Debug)]
pub struct EntLog {
    pub get_range: Vec<(u64, u64)>,
    pub add_headers: usize,
}

#[derive(Clone, Debug)]
pub struct EntSpec {
    pub len: u64,
    pub etag: Option<Vec<u8>>,
    pub mtime: Option<SystemTime>,
    pub headers: Vec<(String, Vec<u8>)>,
    /// Script for the k-th `get_range` call (the last one is reused for later calls).
    pub scripts: Vec<Script>,
    /// How `add_headers` treats the map it is given: 0 = appends its headers (the default);
    /// 1 = looks at the map first (its headers only if there is no Content-Range yet, else
    /// `x-partial: 1`); 2 = `insert`s (replaces) instead of appending.
    pub hdr_mode: u8,
}

pub struct ScriptEnt {
    pub spec: EntSpec,
    pub log: Arc<Mutex<EntLog>>,
}

impl ScriptEnt {
    pub fn new(spec: EntSpec) -> (ScriptEnt, Arc<Mutex<EntLog>>) {
        let log = Arc::new(Mutex::new(EntLog::default()));
        (
            ScriptEnt {
                spec,
                log: log.clone(),
            },
            log,
        )
    }
}

struct ScriptStream {
    pos: u64,
    script: Script,
    i: usize,
    ended: bool,
}

impl Stream for ScriptStream {
    type Item = Result<VBuf, HErr>;
    fn poll_next(mut self: Pin<&mut Self>, cx: &mut Context<'_>) -> Poll<Option<Self::Item>> {
        let ev = if self.i < self.script.evs.len() {
            let e = self.script.evs[self.i];
            self.i += 1;
            e
        } else {
            match (self.script.tail, self.script.evs.last()) {
                (Tail::Repeat, Some(e)) => *e,
                (Tail::Strict, _) => {
                    if self.ended {
                        panic!("entity stream polled again after it returned Poll::Ready(None)");
                    }
                    self.ended = true;
                    return Poll::Ready(None);
                }
                _ => return Poll::Ready(None),
            }
        };
        match ev {
            Ev::Data(n) => {
                let b = VBuf::virt(self.pos, n);
                self.pos = self.pos.wrapping_add(n);
                Poll::Ready(Some(Ok(b)))
            }
            Ev::Pending => {
                cx.waker().wake_by_ref();
                Poll::Pending
            }
            Ev::Err => Poll::Ready(Some(Err(HErr::Scripted))),
        }
    }
}

impl http_serve::Entity for ScriptEnt {
    type Error = HErr;
    type Data = VBuf;

    fn len(&self) -> u64 {
        self.spec.len
    }

    fn get_range(
        &self,
        range: Range<u64>,
    ) -> Pin<Box<dyn Stream<Item = Result<VBuf, HErr>> + Send + Sync>> {
        let k = {
            let mut l = self.log.lock().unwrap();
            l.get_range.push((range.start, range.end));
            l.get_range.len() - 1
        };
        let script = if self.spec.scripts.is_empty() {
            Script::whole(range.end.wrapping_sub(range.start))
        } else {
            self.spec.scripts[k.min(self.spec.scripts.len() - 1)].clone()
        };
        Box::pin(ScriptStream {
            pos: range.start,
            script,
            i: 0,
            ended: false,
        })
    }

    fn add_headers(&self, h: &mut HeaderMap) {
        self.log.lock().unwrap().add_headers += 1;
        if self.spec.hdr_mode == 1 && h.contains_key("content-range") {
            h.append("x-partial", HeaderValue::from_static("1"));
            return;
        }
        for (k, v) in &self.spec.headers {
            let (name, value) = (HeaderName::from_bytes(k.as_bytes()).expect("harness header name"), HeaderValue::from_bytes(v).expect("harness header value"));
            if self.spec.hdr_mode == 2 {
                h.insert(name, value);
            } else {
                h.append(name, value);
            }
        }
    }

    fn etag(&self) -> Option<HeaderValue> {
        self.spec
            .etag
            .as_ref()
            .map(|e| HeaderValue::from_bytes(e).expect("harness etag"))
    }

    fn last_modified(&self) -> Option<SystemTime> {
        self.spec.mtime
    }
}
