//! Position-dependent entity content and "virtual" buffers.
//!
//! `content_byte(i)` has no short period, so any shifted, swapped, repeated or skipped byte
//! changes what the oracle sees. `VBuf::Virt` describes `len` entity bytes starting at `off`
//! without materialising them: the crate under test only ever calls `remaining()` on entity
//! data, so a 2^64-1 byte entity can be "served" with no memory, and the oracle compares
//! descriptors (offset, length) instead of bytes. Virtual buffers are also non-contiguous `Buf`s:
//! `chunk()` returns only the first half of what `remaining()` counts.

use bytes::{Buf, Bytes};
use std::sync::OnceLock;

#[inline]
pub fn content_byte(i: u64) -> u8 {
    let x = i.wrapping_mul(0x9E37_79B9_7F4A_7C15) ^ (i >> 7);
    ((x >> 56) as u8) ^ (i as u8).rotate_left(3)
}

pub fn content_vec(off: u64, len: usize) -> Vec<u8> {
    (0..len as u64)
        .map(|k| content_byte(off.wrapping_add(k)))
        .collect()
}

/// Largest piece a `Virt` buffer ever renders at once.
const RENDER_MAX: u64 = 65_536;

#[derive(Debug)]
pub enum VBuf {
    /// Literal bytes (what the crate creates via `From<Vec<u8>>` / `From<&'static [u8]>`).
    Real(Bytes),
    /// Entity bytes `off..off+len` (wrapping), rendered lazily.
    Virt {
        off: u64,
        len: u64,
        rendered: OnceLock<Bytes>,
    },
}

impl VBuf {
    pub fn virt(off: u64, len: u64) -> Self {
        VBuf::Virt {
            off,
            len,
            rendered: OnceLock::new(),
        }
    }

    pub fn len64(&self) -> u64 {
        match self {
            VBuf::Real(b) => b.len() as u64,
            VBuf::Virt { len, .. } => *len,
        }
    }
}

impl From<Vec<u8>> for VBuf {
    fn from(v: Vec<u8>) -> Self {
        VBuf::Real(Bytes::from(v))
    }
}

impl From<&'static [u8]> for VBuf {
    fn from(v: &'static [u8]) -> Self {
        VBuf::Real(Bytes::from_static(v))
    }
}

impl Buf for VBuf {
    fn remaining(&self) -> usize {
        match self {
            VBuf::Real(b) => b.remaining(),
            VBuf::Virt { len, .. } => *len as usize,
        }
    }

    fn chunk(&self) -> &[u8] {
        match self {
            VBuf::Real(b) => b.chunk(),
            VBuf::Virt { off, len, rendered } => {
                // Deliberately NON-CONTIGUOUS: a buffer of two or more bytes exposes only its
                // first half as the current chunk (`Buf` permits any non-empty prefix), so code
                // that mistakes `chunk().len()` for `remaining()` is wrong on every such buffer.
                let n = if *len >= 2 { len.div_ceil(2).min(RENDER_MAX) } else { *len } as usize;
                &rendered.get_or_init(|| Bytes::from(content_vec(*off, n)))[..]
            }
        }
    }

    fn advance(&mut self, cnt: usize) {
        match self {
            VBuf::Real(b) => b.advance(cnt),
            VBuf::Virt { off, len, rendered } => {
                assert!(cnt as u64 <= *len);
                *off = off.wrapping_add(cnt as u64);
                *len -= cnt as u64;
                *rendered = OnceLock::new();
            }
        }
    }
}
