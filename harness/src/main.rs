use mc::report::{Run, Tier};

#[global_allocator]
static GLOBAL: mc::alloc::Counting = mc::alloc::Counting;

fn usage() -> ! {
    eprintln!("usage: mc run <property> --tier quick|thorough | mc replay <property> <file>");
    std::process::exit(2)
}

fn main() {
    let args: Vec<String> = std::env::args().collect();
    if std::env::var_os("MC_LOUD").is_none() {
        mc::drive::quiet_panics();
    }
    match args.get(1).map(|s| s.as_str()) {
        Some("run") => {
            let prop = args.get(2).cloned().unwrap_or_else(|| usage());
            let tier = match args.iter().position(|a| a == "--tier").and_then(|i| args.get(i + 1)).map(|s| s.as_str()) {
                Some("thorough") => Tier::Thorough,
                Some("quick") | None => Tier::Quick,
                _ => usage(),
            };
            std::process::exit(run(&prop, tier));
        }
        Some("replay") => {
            let prop = args.get(2).cloned().unwrap_or_else(|| usage());
            let file = args.get(3).cloned().unwrap_or_else(|| usage());
            let doc: serde_json::Value = serde_json::from_str(&std::fs::read_to_string(&file).expect("read replay file")).expect("parse replay file");
            let case = &doc["case"];
            // hangs and process aborts inside the subject are verdicts here too
            mc::report::start_watchdog(&prop, case["engine"].as_str().unwrap_or("?"), Tier::Quick);
            let code = match case["engine"].as_str() {
                Some("serve_mc") => mc::serve_mc::replay(case, &prop),
                Some("fs_mc") => mc::fs_mc::replay(case, &prop),
                Some("sched_mc") => mc::sched_mc::replay(case, &prop),
                Some("neg_mc") | Some("neg_mc_c17") => mc::neg_mc::replay(case, &prop),
                Some("stream_mc") | Some("stream_release") => mc::stream_mc::replay(case, &prop),
                other => {
                    eprintln!("unknown engine {other:?}");
                    2
                }
            };
            std::process::exit(code);
        }
        _ => usage(),
    }
}

fn run(prop: &str, tier: Tier) -> i32 {
    use mc::serve_mc as s;
    let (engine, f): (&'static str, fn(&mut Run) -> mc::report::Stats) = match prop {
        "C01" => ("serve_mc", s::run_c01),
        "C02" => ("serve_mc", s::run_c02),
        "C03" => ("serve_mc", s::run_c03),
        "C04" => ("serve_mc", s::run_c04),
        "C05" => ("serve_mc", s::run_c05),
        "C06" => ("serve_mc", s::run_c06),
        "C07" => ("serve_mc", s::run_c07),
        "C08" => ("stream_mc", mc::stream_mc::run_c08),
        "C09" => ("stream_mc", mc::stream_mc::run_c09),
        "C10" => ("sched_mc", mc::sched_mc::run_c10),
        "C11" => ("stream_mc", mc::stream_mc::run_c11_seq),
        "C12" => ("serve_mc", s::run_c12_serve),
        "C13" => ("serve_mc", s::run_c13),
        "C16" => ("neg_mc", mc::neg_mc::run_c16),
        "C17" => ("neg_mc", mc::neg_mc::run_c17),
        "C18" => ("fs_mc", mc::fs_mc::run_c18),
        "C19" => ("fs_mc", mc::fs_mc::run_c19),
        "C20" => ("serve_mc", s::run_c20_serve),
        "C14" => ("serve_mc", s::run_c14),
        "C15" => ("serve_mc", s::run_c15_serve),
        _ => {
            eprintln!("no check for {prop}");
            return 2;
        }
    };
    let mut run = Run::new(prop, engine, tier);
    // The broad, linear families run FIRST: they are cheap, and a wall cap that cuts a run short
    // must cut the deep end of the exponential sweeps, not these.
    let mut pre = mc::report::Stats::new();
    let mut rule_suffix = String::new();
    if engine == "serve_mc" {
        // histories of two requests on one fresh thread (state must not survive a call)
        let pairs = s::run_pairs(prop);
        run.extra.insert("request_pair_histories".into(), serde_json::json!(pairs.evaluations));
        rule_suffix.push_str("; plus every ordered pair (A, B) over a set of requests reaching every response class (incl. the multipart-overflow 413), run as 'A then B' on a fresh OS thread, B judged by the same oracle (serve() must not keep state between calls)");
        pre.merge(pairs);
        // every kind of entity against every kind of request (rich alphabets of all dimensions)
        let zoo = s::run_zoo(prop, tier);
        run.extra.insert("zoo_executions".into(), serde_json::json!(zoo.evaluations));
        rule_suffix.push_str("; plus the 'zoo': entities over {12 lengths} x {13 entity tags incl. comma / semicolon / '*' / backslash / obs-text / empty / 300 bytes, strong and weak} x {8 modification times incl. the epoch, +0.5 s, +1 ns, 2100} x {8 entity header sets} (quick: a third of that product) against ~50 requests derived from each entity's own length and validators");
        pre.merge(zoo);
        // bodies with hundreds of ready frames, drained inside a tokio task
        let tk = s::run_in_tokio(prop);
        run.extra.insert("bodies_drained_inside_a_tokio_task".into(), serde_json::json!(tk.evaluations));
        rule_suffix.push_str("; plus 16 bodies whose entity delivers 100..1000 always-ready one-byte chunks (200, single 206, multipart), drained inside a tokio task (cooperative budget, runtime context)");
        pre.merge(tk);
        let ss = s::run_strict_streams(prop);
        run.extra.insert("bodies_over_strict_entity_streams".into(), serde_json::json!(ss.evaluations));
        rule_suffix.push_str(" and by hand (up to 3000 chunks); bodies over honest entity streams that panic when polled after their end (drained without extra polls)");
        pre.merge(ss);
    }
    if engine == "stream_mc" {
        // every chunk size x coding x waker discipline x payload against a fixed set of history shapes
        let zoo = mc::stream_mc::stream_zoo(prop, tier);
        run.extra.insert("stream_zoo_histories".into(), serde_json::json!(zoo.evaluations));
        rule_suffix.push_str("; plus the streaming 'zoo': 25 history shapes (every operation incl. write_vectored, write!, abort and body drop; write sizes 1, c-1, c, c+1, 3c+1, 70001) x chunk size {1,2,3,7,8,19,255,256,512,1000,4096,16384,65536} x {identity, gzip level 0/1/6/9} x {same waker, fresh waker per poll} x {incompressible, 'a'-run}; plus histories of two bodies in one process (a first one aborted / dropped with unread chunks, then an ordinary one, which is judged)");
        pre.merge(zoo);
    }
    let mut st = f(&mut run);
    run.rule.push_str(&rule_suffix);
    st.merge(pre);
    run.finish(st)
}
