//! Hand-rolled consumer: polls a body step by step with a counting waker, sampling
//! `size_hint()` / `is_end_stream()` before every poll, catching panics of the subject.

use crate::ent::HErr;
use crate::vbuf::VBuf;
use bytes::Buf;
use http_body::Body as _;
use std::panic::{catch_unwind, AssertUnwindSafe};
use std::pin::Pin;
use std::sync::atomic::{AtomicUsize, Ordering};
use std::sync::Arc;
use std::task::{Context, Poll, Wake, Waker};

pub type SBody = http_serve::Body<VBuf, HErr>;

#[derive(Clone, Debug, PartialEq, Eq, Hash)]
pub enum Obs {
    /// Literal bytes.
    Real(Vec<u8>),
    /// Entity bytes `off..off+len`.
    Virt(u64, u64),
    /// A non-data frame (never produced by this crate).
    OtherFrame,
    Err(HErr2),
    End,
    Pending,
    Panic(String),
}

/// Hashable mirror of `HErr`.
#[derive(Clone, Debug, PartialEq, Eq, Hash)]
pub enum HErr2 {
    Scripted,
    Injected(String),
    Abort(u32),
}

impl From<HErr> for HErr2 {
    fn from(e: HErr) -> Self {
        match e {
            HErr::Scripted => HErr2::Scripted,
            HErr::Injected(s) => HErr2::Injected(s),
            HErr::Abort(n) => HErr2::Abort(n),
        }
    }
}

impl Obs {
    pub fn is_data(&self) -> bool {
        matches!(self, Obs::Real(_) | Obs::Virt(..))
    }
    pub fn data_len(&self) -> u64 {
        match self {
            Obs::Real(v) => v.len() as u64,
            Obs::Virt(_, l) => *l,
            _ => 0,
        }
    }
    pub fn is_terminal(&self) -> bool {
        matches!(self, Obs::Err(_) | Obs::End | Obs::Panic(_))
    }
    pub fn kind(&self) -> &'static str {
        match self {
            Obs::Real(_) => "real",
            Obs::Virt(..) => "virt",
            Obs::OtherFrame => "other",
            Obs::Err(HErr2::Scripted) => "err-entity",
            Obs::Err(HErr2::Injected(_)) => "err-injected",
            Obs::Err(HErr2::Abort(_)) => "err-abort",
            Obs::End => "end",
            Obs::Pending => "pending",
            Obs::Panic(_) => "panic",
        }
    }
    pub fn to_json(&self) -> serde_json::Value {
        match self {
            Obs::Real(v) => {
                if v.len() <= 200 {
                    serde_json::json!({"real": String::from_utf8_lossy(v)})
                } else {
                    serde_json::json!({"real_len": v.len()})
                }
            }
            Obs::Virt(o, l) => serde_json::json!({"entity_bytes": [o.to_string(), l.to_string()]}),
            Obs::OtherFrame => serde_json::json!("non-data-frame"),
            Obs::Err(e) => serde_json::json!({"err": format!("{:?}", e)}),
            Obs::End => serde_json::json!("end"),
            Obs::Pending => serde_json::json!("pending"),
            Obs::Panic(s) => serde_json::json!({"panic": s}),
        }
    }
}

#[derive(Clone, Copy, Debug, PartialEq, Eq, Hash)]
pub struct Sample {
    pub lower: u64,
    pub upper: Option<u64>,
    pub is_end: bool,
}

pub struct CountWaker(pub AtomicUsize);
impl Wake for CountWaker {
    fn wake(self: Arc<Self>) {
        self.0.fetch_add(1, Ordering::SeqCst);
    }
    fn wake_by_ref(self: &Arc<Self>) {
        self.0.fetch_add(1, Ordering::SeqCst);
    }
}

pub fn panic_msg(p: Box<dyn std::any::Any + Send>) -> String {
    if let Some(s) = p.downcast_ref::<&str>() {
        s.to_string()
    } else if let Some(s) = p.downcast_ref::<String>() {
        s.clone()
    } else {
        "<non-string panic>".into()
    }
}

/// Silences the default panic printer (subject panics are caught and reported as data).
pub fn quiet_panics() {
    std::panic::set_hook(Box::new(|_| {}));
}

/// Holds a subject object and *leaks* it instead of dropping it while the thread is
/// unwinding. After a subject panic the shared state may be poisoned, and the subject's own
/// destructors (`Writer::drop`: `lock().expect("not poisoned")`) would then panic during
/// cleanup, which aborts the whole process instead of yielding a verdict.
pub struct LeakOnUnwind<T>(std::mem::ManuallyDrop<T>);

impl<T> LeakOnUnwind<T> {
    pub fn new(t: T) -> Self {
        LeakOnUnwind(std::mem::ManuallyDrop::new(t))
    }
    /// Leaks the value deliberately (after the subject panicked).
    pub fn leak(self) {
        std::mem::forget(self);
    }
}

impl<T> std::ops::Deref for LeakOnUnwind<T> {
    type Target = T;
    fn deref(&self) -> &T {
        &self.0
    }
}

impl<T> std::ops::DerefMut for LeakOnUnwind<T> {
    fn deref_mut(&mut self) -> &mut T {
        &mut self.0
    }
}

impl<T> Drop for LeakOnUnwind<T> {
    fn drop(&mut self) {
        if !std::thread::panicking() {
            unsafe { std::mem::ManuallyDrop::drop(&mut self.0) }
        }
    }
}

pub struct Poller {
    pub body: LeakOnUnwind<Pin<Box<SBody>>>,
    pub wk: Arc<CountWaker>,
    waker: Waker,
    pub dead: bool,
    /// Present a different waker (`will_wake` false) at every poll. Each waker has its own wake
    /// counter, so that "the waker of the last Pending poll was woken" can be told from "some
    /// older waker was woken".
    pub fresh: bool,
    /// Run every poll (and every hint sample) on a freshly spawned OS thread: a body is `Send`,
    /// and a multi-threaded executor does move a task between polls.
    pub hop_threads: bool,
    /// wake counter of the waker presented at the most recent poll
    pub last: Arc<CountWaker>,
    all: Vec<Arc<CountWaker>>,
    /// polls made in `fresh` mode (decides the kind of the next waker)
    polls: usize,
    alias: Option<&'static AliasData>,
}

/// Wakers that share this one data pointer and differ in their vtable; slot k counts the wake-ups
/// of the waker built on vtable k. Leaked on purpose (a waker may outlive the poller).
pub struct AliasData {
    c: [Arc<CountWaker>; ALIAS_SLOTS],
}
const ALIAS_SLOTS: usize = 8;

macro_rules! alias_vt {
    ($k:literal) => {{
        unsafe fn cl(d: *const ()) -> std::task::RawWaker {
            std::task::RawWaker::new(d, &ALIAS_VT[$k])
        }
        unsafe fn wk(d: *const ()) {
            let data: &AliasData = &*(d as *const AliasData);
            data.c[$k].0.fetch_add(1, Ordering::SeqCst);
        }
        unsafe fn dr(_: *const ()) {}
        std::task::RawWakerVTable::new(cl, wk, wk, dr)
    }};
}
static ALIAS_VT: [std::task::RawWakerVTable; ALIAS_SLOTS] = [alias_vt!(0), alias_vt!(1), alias_vt!(2), alias_vt!(3), alias_vt!(4), alias_vt!(5), alias_vt!(6), alias_vt!(7)];

impl Drop for Poller {
    fn drop(&mut self) {
        if self.dead {
            // the body panicked: do not run its destructors
            let b = std::mem::replace(&mut self.body, LeakOnUnwind::new(Box::pin(SBody::empty())));
            b.leak();
        }
    }
}

impl Poller {
    pub fn new(body: SBody) -> Poller {
        let wk = Arc::new(CountWaker(AtomicUsize::new(0)));
        Poller {
            body: LeakOnUnwind::new(Box::pin(body)),
            waker: Waker::from(wk.clone()),
            last: wk.clone(),
            all: vec![wk.clone()],
            wk,
            dead: false,
            fresh: false,
            hop_threads: false,
            polls: 0,
            alias: None,
        }
    }

    /// Wake-ups delivered to any waker this poller ever presented.
    pub fn wakes(&self) -> usize {
        self.all.iter().map(|w| w.0.load(Ordering::SeqCst)).sum()
    }

    /// Wake-ups delivered to the waker presented at the most recent poll.
    pub fn last_waker_wakes(&self) -> usize {
        self.last.0.load(Ordering::SeqCst)
    }

    pub fn sample(&self) -> Result<Sample, String> {
        catch_unwind(AssertUnwindSafe(|| {
            let h = self.body.size_hint();
            Sample {
                lower: h.lower(),
                upper: h.upper(),
                is_end: self.body.is_end_stream(),
            }
        }))
        .map_err(panic_msg)
    }

    pub fn poll(&mut self) -> Obs {
        if self.hop_threads {
            self.hop_threads = false;
            let o = std::thread::scope(|s| s.spawn(|| self.poll()).join().expect("poll thread"));
            self.hop_threads = true;
            return o;
        }
        if self.fresh {
            // Two kinds of "different waker", in the fixed rotation alias, alias, arc, arc: wakers
            // built on a fresh Arc (another data pointer), and wakers that SHARE one data pointer
            // and differ only in their vtable (legal, and `will_wake` is false between them) --
            // an implementation that compares data pointers instead of calling `will_wake` keeps
            // the stale one.
            let k = self.polls;
            self.polls += 1;
            if k % 4 < 2 {
                let slot = ((k / 4) * 2 + k % 4) % ALIAS_SLOTS;
                let data = self.alias.get_or_insert_with(|| {
                    let d: &'static AliasData = Box::leak(Box::new(AliasData { c: std::array::from_fn(|_| Arc::new(CountWaker(AtomicUsize::new(0)))) }));
                    d
                });
                let wk = data.c[slot].clone();
                if !self.all.iter().any(|w| Arc::ptr_eq(w, &wk)) {
                    self.all.push(wk.clone());
                }
                self.last = wk;
                self.waker = unsafe { Waker::from_raw(std::task::RawWaker::new(*data as *const AliasData as *const (), &ALIAS_VT[slot])) };
            } else {
                let wk = Arc::new(CountWaker(AtomicUsize::new(0)));
                self.waker = Waker::from(wk.clone());
                self.last = wk.clone();
                self.all.push(wk);
            }
        }
        let mut cx = Context::from_waker(&self.waker);
        let r = catch_unwind(AssertUnwindSafe(|| self.body.as_mut().poll_frame(&mut cx)));
        match r {
            Err(p) => {
                self.dead = true;
                Obs::Panic(panic_msg(p))
            }
            Ok(Poll::Pending) => Obs::Pending,
            Ok(Poll::Ready(None)) => Obs::End,
            Ok(Poll::Ready(Some(Err(e)))) => Obs::Err(e.into()),
            Ok(Poll::Ready(Some(Ok(f)))) => match f.into_data() {
                Ok(VBuf::Virt { off, len, .. }) => Obs::Virt(off, len),
                Ok(VBuf::Real(b)) => Obs::Real(b.chunk().to_vec()),
                Err(_) => Obs::OtherFrame,
            },
        }
    }
}

#[derive(Clone, Debug)]
pub struct BodyTrace {
    /// (sample taken before the poll, result of the poll)
    pub steps: Vec<(Sample, Obs)>,
    /// Sample taken after the last poll.
    pub last: Option<Sample>,
    /// A `Pending` was returned without the waker having been woken: the body would hang.
    pub stuck: bool,
    /// The poll horizon was hit before a terminal event.
    pub horizon: bool,
    pub sample_panic: Option<String>,
}

impl BodyTrace {
    pub fn first_terminal(&self) -> Option<usize> {
        self.steps.iter().position(|(_, o)| o.is_terminal())
    }
    pub fn delivered(&self) -> u128 {
        self.steps.iter().map(|(_, o)| o.data_len() as u128).sum()
    }
    pub fn to_json(&self) -> serde_json::Value {
        let steps: Vec<serde_json::Value> = self
            .steps
            .iter()
            .map(|(s, o)| {
                serde_json::json!({"hint": [s.lower.to_string(), s.upper.map(|u| u.to_string())], "is_end": s.is_end, "poll": o.to_json()})
            })
            .collect();
        serde_json::json!({"steps": steps, "stuck": self.stuck, "horizon": self.horizon})
    }
}

/// Polls to the first terminal event and then `extra` more times (unless the body panicked).
pub fn drain(body: SBody, extra: usize, horizon: usize) -> BodyTrace {
    let mut p = Poller::new(body);
    let mut t = BodyTrace {
        steps: Vec::new(),
        last: None,
        stuck: false,
        horizon: false,
        sample_panic: None,
    };
    let mut after_terminal: Option<usize> = None;
    loop {
        if t.steps.len() >= horizon {
            t.horizon = after_terminal.is_none();
            break;
        }
        let s = match p.sample() {
            Ok(s) => s,
            Err(m) => {
                t.sample_panic = Some(m);
                break;
            }
        };
        let w0 = p.wakes();
        let o = p.poll();
        let pending = o == Obs::Pending;
        let term = o.is_terminal();
        let panicked = matches!(o, Obs::Panic(_));
        t.steps.push((s, o));
        if panicked {
            break;
        }
        if let Some(k) = after_terminal.as_mut() {
            *k += 1;
            if *k >= extra {
                break;
            }
            if pending && p.wakes() == w0 {
                // Pending after the terminal event with no wake: stop polling, not a hang of
                // the response (it already terminated).
                break;
            }
        } else if term {
            after_terminal = Some(0);
            if extra == 0 {
                break;
            }
        } else if pending && p.wakes() == w0 {
            t.stuck = true;
            break;
        }
    }
    if !p.dead {
        match p.sample() {
            Ok(s) => t.last = Some(s),
            Err(m) => t.sample_panic = Some(m),
        }
    }
    t
}

/// As `drain`, but the body is polled INSIDE a tokio task (current-thread runtime): code that
/// consults the runtime -- cooperative budgeting, `block_in_place`, task-local state -- behaves
/// differently there than under a hand-rolled poll loop. `Pending` results are awaited (the
/// task is re-polled when woken), so only `Ready` results appear as steps; a frame that does not
/// arrive within 5 s counts as stuck.
pub fn drain_in_tokio(body: SBody, extra: usize, horizon: usize) -> BodyTrace {
    let rt = tokio::runtime::Builder::new_current_thread().enable_time().build().expect("runtime");
    rt.block_on(async move {
        let h = tokio::spawn(async move {
            let mut body = LeakOnUnwind::new(Box::pin(body));
            let mut t = BodyTrace { steps: Vec::new(), last: None, stuck: false, horizon: false, sample_panic: None };
            let mut after_terminal: Option<usize> = None;
            let mut dead = false;
            loop {
                if t.steps.len() >= horizon {
                    t.horizon = after_terminal.is_none();
                    break;
                }
                let s = {
                    let b = &body;
                    match catch_unwind(AssertUnwindSafe(|| {
                        let h = b.size_hint();
                        Sample { lower: h.lower(), upper: h.upper(), is_end: b.is_end_stream() }
                    })) {
                        Ok(s) => s,
                        Err(p) => {
                            t.sample_panic = Some(panic_msg(p));
                            break;
                        }
                    }
                };
                let fut = std::future::poll_fn(|cx| match catch_unwind(AssertUnwindSafe(|| body.as_mut().poll_frame(cx))) {
                    Err(p) => Poll::Ready(Obs::Panic(panic_msg(p))),
                    Ok(Poll::Pending) => Poll::Pending,
                    Ok(Poll::Ready(None)) => Poll::Ready(Obs::End),
                    Ok(Poll::Ready(Some(Err(e)))) => Poll::Ready(Obs::Err(e.into())),
                    Ok(Poll::Ready(Some(Ok(f)))) => Poll::Ready(match f.into_data() {
                        Ok(VBuf::Virt { off, len, .. }) => Obs::Virt(off, len),
                        Ok(VBuf::Real(b)) => Obs::Real(b.chunk().to_vec()),
                        Err(_) => Obs::OtherFrame,
                    }),
                });
                let o = match tokio::time::timeout(std::time::Duration::from_secs(5), fut).await {
                    Ok(o) => o,
                    Err(_) => {
                        t.stuck = after_terminal.is_none();
                        break;
                    }
                };
                let term = o.is_terminal();
                let panicked = matches!(o, Obs::Panic(_));
                t.steps.push((s, o));
                if panicked {
                    dead = true;
                    break;
                }
                if let Some(k) = after_terminal.as_mut() {
                    *k += 1;
                    if *k >= extra {
                        break;
                    }
                } else if term {
                    after_terminal = Some(0);
                    if extra == 0 {
                        break;
                    }
                }
            }
            if dead {
                body.leak();
            }
            t
        });
        h.await.expect("drain task")
    })
}
