//! Alphabets shared by the `serve` explorers: entity lengths, validators, entity-stream scripts.

use crate::ent::{Ev, Script, Tail};
use std::time::{Duration, SystemTime, UNIX_EPOCH};

pub const LENS_FULL: [u64; 24] = [
    0,
    1,
    2,
    3,
    9,
    10,
    11,
    99,
    100,
    101,
    159,
    160,
    161,
    162,
    240,
    400,
    1000,
    (1 << 32) - 1,
    1 << 32,
    (1 << 32) + 1,
    (1 << 63) - 1,
    1 << 63,
    u64::MAX - 1,
    u64::MAX,
];

pub const LENS_THIN: [u64; 12] = [
    0,
    1,
    2,
    10,
    161,
    162,
    400,
    1000,
    1 << 32,
    1 << 63,
    u64::MAX - 1,
    u64::MAX,
];

/// Whole second used for past modification times: Sun, 06 Nov 1994 08:49:37 GMT.
pub const LM: u64 = 784_111_777;

pub fn t(secs: u64, nanos: u32) -> SystemTime {
    UNIX_EPOCH + Duration::new(secs, nanos)
}

pub fn future() -> SystemTime {
    SystemTime::now() + Duration::from_secs(86_400)
}

pub fn etags() -> Vec<Option<Vec<u8>>> {
    vec![
        None,
        Some(b"\"v1\"".to_vec()),
        Some(b"W/\"v1\"".to_vec()),
        Some(b"\"a, b\"".to_vec()),
        // obs-text (bytes >= 0x80) is legal inside an entity-tag
        Some(b"\"v1-caf\xc3\xa9\xff\"".to_vec()),
    ]
}

/// Entity tags with every kind of character `etagc` allows that a parser might trip over: comma
/// (with and without a space), semicolon / equals, `*`, a `W/` inside the quotes, backslash,
/// the empty tag, obs-text, a long one; plus weak forms.
pub fn etags_rich() -> Vec<Option<Vec<u8>>> {
    let mut v: Vec<Option<Vec<u8>>> = vec![None];
    for t in [&b"\"v1\""[..], b"W/\"v1\"", b"\"a, b\"", b"\"1,234\"", b"\"\"", b"\"*\"", b"\"x;q=0\"", b"\"W/\"", b"\"back\\slash\"", b"\"C:\\data\\\"", b"\"\\\"", b"\"v1-caf\xc3\xa9\xff\"", b"W/\"a, b\"", b"\", \"", b"\",\""] {
        v.push(Some(t.to_vec()));
    }
    v.push(Some(format!("\"{}\"", "t".repeat(300)).into_bytes()));
    v
}

pub fn header_sets() -> Vec<Vec<(String, Vec<u8>)>> {
    vec![
        vec![],
        vec![("content-type".into(), b"text/plain".to_vec())],
        vec![
            ("content-type".into(), b"application/octet-stream".to_vec()),
            ("x-long".into(), vec![b'a'; 200]),
        ],
        vec![
            ("content-type".into(), b"text/plain".to_vec()),
            ("content-language".into(), b"en".to_vec()),
            ("x-a".into(), b"1".to_vec()),
        ],
        // value bytes >= 0x80 that are not UTF-8 (Latin-1 file name): legal obs-text
        vec![
            ("content-disposition".into(), b"attachment; filename=\"caf\xe9.bin\"".to_vec()),
            ("content-type".into(), b"application/x-caf\xe9".to_vec()),
        ],
        // a field with several values (HeaderMap::append): every value is one of the entity's headers
        vec![
            ("content-language".into(), b"en".to_vec()),
            ("content-type".into(), b"text/plain".to_vec()),
            ("content-language".into(), b"de".to_vec()),
            ("x-a".into(), b"1".to_vec()),
            ("x-a".into(), b"2".to_vec()),
        ],
        // very long values (a Content-Security-Policy, a Link header): 1500 and 5000 bytes
        vec![
            ("content-type".into(), b"text/html".to_vec()),
            ("content-security-policy".into(), (0..1500).map(|i| b"abcdefghij; "[i % 12]).collect()),
            ("link".into(), (0..5000).map(|i| b"<https://example.org/x>; rel=preload, "[i % 38]).collect()),
            ("x-object-meta".into(), b"1".to_vec()),
        ],
        // values with optional whitespace around them (legal in a HeaderValue; not part of the value)
        vec![
            ("content-disposition".into(), b"attachment; filename=report.txt ".to_vec()),
            ("x-pad".into(), b"\t padded \t".to_vec()),
            ("content-type".into(), b" text/plain".to_vec()),
        ],
    ]
}

/// All compositions of `n` into exactly `k` positive parts.
fn compositions_k(n: u64, k: usize, cur: &mut Vec<u64>, out: &mut Vec<Vec<u64>>) {
    if k == 1 {
        if n >= 1 {
            cur.push(n);
            out.push(cur.clone());
            cur.pop();
        }
        return;
    }
    for first in 1..=n.saturating_sub(k as u64 - 1) {
        cur.push(first);
        compositions_k(n - first, k - 1, cur, out);
        cur.pop();
    }
}

/// Chunkings of a range of `n` bytes into at most `kmax` non-empty chunks: every composition
/// for n <= 6, every *shape* (split points from {1, n/2, n-1}) for longer ranges.
pub fn chunkings(n: u64, kmax: usize) -> Vec<Vec<u64>> {
    if n == 0 {
        return vec![vec![]];
    }
    let mut out = Vec::new();
    if n <= 6 {
        for k in 1..=kmax.min(n as usize) {
            compositions_k(n, k, &mut Vec::new(), &mut out);
        }
    } else {
        let mut pts = vec![1, n / 2, n - 1];
        pts.sort();
        pts.dedup();
        // subsets of split points of size <= kmax-1
        for mask in 0u32..(1 << pts.len()) {
            if mask.count_ones() as usize > kmax - 1 {
                continue;
            }
            let mut prev = 0;
            let mut c = Vec::new();
            for (i, p) in pts.iter().enumerate() {
                if mask & (1 << i) != 0 {
                    c.push(p - prev);
                    prev = *p;
                }
            }
            c.push(n - prev);
            out.push(c);
        }
    }
    out
}

/// Inserts up to `dev` benign deviations (empty chunk / Pending) at every position.
fn with_benign(base: &[Ev], dev: usize, max_events: usize, out: &mut Vec<Vec<Ev>>) {
    out.push(base.to_vec());
    if dev == 0 || base.len() >= max_events {
        return;
    }
    let mut level: Vec<Vec<Ev>> = vec![base.to_vec()];
    for _ in 0..dev {
        let mut next = Vec::new();
        for b in &level {
            if b.len() >= max_events {
                continue;
            }
            for pos in 0..=b.len() {
                for ins in [Ev::Data(0), Ev::Pending] {
                    let mut v = b.clone();
                    v.insert(pos, ins);
                    next.push(v);
                }
            }
        }
        next.sort_by_key(|v| format!("{v:?}"));
        next.dedup();
        out.extend(next.iter().cloned());
        level = next;
    }
}

/// Contract-honouring scripts for a range of `n` bytes.
pub fn honour_scripts(n: u64, kmax: usize, dev: usize, max_events: usize) -> Vec<Script> {
    let mut evs: Vec<Vec<Ev>> = Vec::new();
    for c in chunkings(n, kmax) {
        let base: Vec<Ev> = c.iter().map(|d| Ev::Data(*d)).collect();
        with_benign(&base, dev, max_events, &mut evs);
    }
    evs.sort_by_key(|v| (v.len(), format!("{v:?}")));
    evs.dedup();
    evs.into_iter().map(Script::of).collect()
}

#[derive(Clone, Copy, Debug, PartialEq, Eq, Hash)]
pub enum FaultKind {
    EndEarly,
    Err,
    ExtraByte,
    ExtraChunk,
    Endless,
    /// over-long chunk, after which the (still running) entity stream goes on with chunks
    /// that would have fitted into what was still owed before the offending one
    LongThenMore,
    /// the entity's own error, after which its stream goes on with the rest of the range (what a
    /// file stream does when a failed read is retried): outside C20's premise, inside C12
    ErrThenMore,
}

/// Scripts with exactly one fault, for a range of `n >= 1` bytes; `dev` benign deviations may
/// precede it.
pub fn fault_scripts(n: u64, kmax: usize, dev: usize, max_events: usize) -> Vec<(FaultKind, Script)> {
    let mut out: Vec<(FaultKind, Vec<Ev>, Tail)> = Vec::new();
    // EndEarly at every byte offset m < n, every chunking of the m bytes.
    let offs: Vec<u64> = if n <= 6 {
        (0..n).collect()
    } else {
        let mut v = vec![0, 1, n / 2, n - 1];
        v.sort();
        v.dedup();
        v
    };
    for m in &offs {
        for c in chunkings(*m, kmax) {
            let base: Vec<Ev> = c.iter().map(|d| Ev::Data(*d)).collect();
            let mut vs = Vec::new();
            with_benign(&base, dev, max_events, &mut vs);
            for v in vs {
                out.push((FaultKind::EndEarly, v.clone(), Tail::Fused));
                // Err at this point instead of the early end.
                if v.len() < max_events {
                    let mut e = v.clone();
                    e.push(Ev::Err);
                    out.push((FaultKind::Err, e.clone(), Tail::Fused));
                    if e.len() < max_events && v.iter().all(|x| *x != Ev::Pending) {
                        e.push(Ev::Data(n - *m));
                        out.push((FaultKind::ErrThenMore, e, Tail::Fused));
                    }
                }
            }
        }
    }
    // Err after the complete range, ExtraByte, ExtraChunk, endless stream.
    for c in chunkings(n, kmax) {
        let base: Vec<Ev> = c.iter().map(|d| Ev::Data(*d)).collect();
        let mut vs = Vec::new();
        with_benign(&base, dev, max_events, &mut vs);
        for v in vs {
            if v.len() < max_events {
                let mut e = v.clone();
                e.push(Ev::Err);
                out.push((FaultKind::Err, e, Tail::Fused));
                let mut x = v.clone();
                x.push(Ev::Data(1));
                out.push((FaultKind::ExtraChunk, x, Tail::Fused));
            }
            // last data chunk one byte longer
            if let Some(p) = v.iter().rposition(|e| matches!(e, Ev::Data(d) if *d > 0)) {
                let mut x = v.clone();
                if let Ev::Data(d) = x[p] {
                    if let Some(d1) = d.checked_add(1) {
                        x[p] = Ev::Data(d1);
                        out.push((FaultKind::ExtraByte, x.clone(), Tail::Fused));
                        // the stream does not stop there: small chunks follow (the crate, not
                        // the entity, ended the response -- they must never be passed on)
                        if x.len() + 1 <= max_events + 1 {
                            let mut y = x.clone();
                            y.push(Ev::Data(1));
                            out.push((FaultKind::LongThenMore, y.clone(), Tail::Fused));
                            out.push((FaultKind::LongThenMore, y.clone(), Tail::Repeat));
                            let mut z = x.clone();
                            z.push(Ev::Data(d1));
                            z.push(Ev::Data(1));
                            out.push((FaultKind::LongThenMore, z, Tail::Fused));
                            if d > 1 {
                                let mut w = x.clone();
                                w.push(Ev::Data(d));
                                out.push((FaultKind::LongThenMore, w, Tail::Fused));
                            }
                        }
                    }
                }
            }
        }
    }
    if n == 0 {
        // nothing is owed: any byte is one too many
        out.push((FaultKind::ExtraByte, vec![Ev::Data(1)], Tail::Fused));
        out.push((FaultKind::ExtraByte, vec![Ev::Data(0), Ev::Data(1)], Tail::Fused));
        out.push((FaultKind::ExtraByte, vec![Ev::Pending, Ev::Data(3)], Tail::Fused));
    }
    // an endless stream of small chunks (the piece size keeps the number of polls bounded)
    out.push((FaultKind::Endless, vec![Ev::Data(if n <= 1000 { 1 } else { n / 7 + 1 })], Tail::Repeat));
    if n > 0 {
        // (for n == 0 this would be an endless stream of empty chunks: it never terminates and
        // nothing is asserted about it)
        out.push((FaultKind::Endless, vec![Ev::Data(n)], Tail::Repeat));
    }
    let mut res: Vec<(FaultKind, Script)> = out
        .into_iter()
        .map(|(k, evs, tail)| (k, Script { evs, tail }))
        .collect();
    res.sort_by_key(|(k, s)| (s.evs.len(), format!("{k:?}{s:?}")));
    res.dedup();
    res
}

#[cfg(test)]
mod tests {
    use super::*;
    #[test]
    fn counts() {
        assert_eq!(chunkings(3, 4).len(), 4);
        assert_eq!(chunkings(5, 4).len(), 1 + 4 + 6 + 4);
        assert!(chunkings(100, 3).iter().all(|c| c.iter().sum::<u64>() == 100));
        for s in honour_scripts(5, 3, 1, 4) {
            assert_eq!(s.data_sum(), 5);
        }
        assert!(!fault_scripts(2, 3, 1, 4).is_empty());
    }
}
