//! Byte-counting global allocator (per-thread live bytes), used by the C11 queue-release
//! measurement. Installed by the binary (`#[global_allocator]` in main.rs).

use std::alloc::{GlobalAlloc, Layout, System};
use std::cell::Cell;

thread_local! {
    static LIVE: Cell<isize> = const { Cell::new(0) };
}

pub struct Counting;

/// Set when the system allocator refused a request (the explorer's exabyte-sized virtual entities
/// make a subject that copies a chunk ask for 2^62 bytes). The SIGABRT handler in report.rs uses
/// it to tell "allocation failed" (machinery; ./check then reruns without giant entities) from
/// "the subject panicked again while unwinding" (a verdict).
pub static ALLOC_FAILED: std::sync::atomic::AtomicBool = std::sync::atomic::AtomicBool::new(false);

fn refused() {
    ALLOC_FAILED.store(true, std::sync::atomic::Ordering::SeqCst);
}

fn add(n: isize) {
    let _ = LIVE.try_with(|c| c.set(c.get() + n));
}

unsafe impl GlobalAlloc for Counting {
    unsafe fn alloc(&self, l: Layout) -> *mut u8 {
        let p = System.alloc(l);
        if !p.is_null() {
            add(l.size() as isize);
        } else {
            refused();
        }
        p
    }
    unsafe fn alloc_zeroed(&self, l: Layout) -> *mut u8 {
        let p = System.alloc_zeroed(l);
        if !p.is_null() {
            add(l.size() as isize);
        } else {
            refused();
        }
        p
    }
    unsafe fn dealloc(&self, p: *mut u8, l: Layout) {
        System.dealloc(p, l);
        add(-(l.size() as isize));
    }
    unsafe fn realloc(&self, p: *mut u8, l: Layout, new_size: usize) -> *mut u8 {
        let q = System.realloc(p, l, new_size);
        if !q.is_null() {
            add(new_size as isize - l.size() as isize);
        } else {
            refused();
        }
        q
    }
}

/// Bytes allocated and not yet freed by the calling thread.
pub fn live_bytes() -> isize {
    LIVE.try_with(|c| c.get()).unwrap_or(0)
}
