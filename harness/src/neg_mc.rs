//! `neg_mc`: exhaustive enumeration of the Accept-Encoding language against the independent
//! evaluator (C16), and of negotiated `streaming_body` configurations (C17, HEAD half of C15).

use crate::drive::{panic_msg, Obs};
use crate::oracle::accept::prefers_gzip;
use crate::oracle::gzip;
use crate::oracle::serve::Finding;
use crate::report::{hash_of, par_for, threads, Run, Stats, Tier};
use crate::stream_mc::{Config, Exec, Payload};
use serde_json::json;
use std::panic::{catch_unwind, AssertUnwindSafe};

pub const CODINGS: [&str; 6] = ["gzip", "identity", "*", "br", "deflate", "x-gzip"];
pub const WEIGHTS: [Option<&str>; 17] = [
    None,
    Some("0"),
    Some("0."),
    Some("0.0"),
    Some("0.000"),
    Some("0.001"),
    Some("0.5"),
    Some("0.999"),
    Some("1"),
    Some("1."),
    Some("1.000"),
    Some("0.05"),
    Some("0.50"),
    Some("0.25"),
    Some("0.9"),
    Some("1.0"),
    Some("0.00"),
];

/// Renders a list with one of four whitespace styles.
pub fn render(elems: &[(usize, usize)], ws: usize) -> String {
    let (comma, semi) = match ws {
        0 => (",", ";"),
        1 => (", ", ";"),
        2 => (",", " ; "),
        3 => (",\t", "\t;\t"),
        _ => (" , ", ";"),
    };
    elems
        .iter()
        .map(|(c, w)| match WEIGHTS[*w] {
            None => CODINGS[*c].to_string(),
            Some(q) => format!("{}{semi}q={q}", CODINGS[*c]),
        })
        .collect::<Vec<_>>()
        .join(comma)
}

fn call_should_gzip(v: Option<&[u8]>) -> Result<bool, String> {
    let mut h = http::HeaderMap::new();
    if let Some(v) = v {
        h.insert(
            http::header::ACCEPT_ENCODING,
            http::HeaderValue::from_bytes(v).map_err(|_| "refused".to_string())?,
        );
    }
    let hv = v.map(|v| v.to_vec());
    let case: crate::report::CaseFn = Box::new(move || json!({"engine": "neg_mc", "accept_encoding": hv.as_ref().map(|v| crate::report::bytes_json(v))}));
    crate::report::watched(case, || catch_unwind(AssertUnwindSafe(|| http_serve::should_gzip(&h))).map_err(|p| format!("panic: {}", panic_msg(p))))
}

fn judge(v: Option<&[u8]>, st: &mut Stats, order: u64, prop: &str) {
    let r = match call_should_gzip(v) {
        Err(e) if e == "refused" => {
            st.count("values_refused_by_http_crate", 1);
            return;
        }
        r => r,
    };
    st.evaluations += 1;
    let mut want = prefers_gzip(v);
    // Outside the grammar nothing is asserted -- except that a value which mentions neither gzip
    // (in any case) nor `*` cannot have allowed gzip, whatever else it is: "gzip is never chosen
    // for a client that did not allow it".
    if want.is_none() {
        if let Some(b) = v {
            let lower = b.to_ascii_lowercase();
            if !lower.windows(4).any(|w| w == b"gzip") && !b.contains(&b'*') {
                want = Some(false);
            }
        }
    }
    // state = which of gzip / identity / * carry which kind of quality, per the harness parser
    let profile = v.map(|b| match crate::oracle::accept::parse(b) {
        crate::oracle::accept::Parsed::List(l) => {
            let q = |n: &str| l.iter().find(|(c, _)| c == n).map(|(_, q)| if *q == 0 { 0u8 } else if *q == 1000 { 2 } else { 1 });
            let cmp = match (l.iter().find(|(c, _)| c == "gzip"), l.iter().find(|(c, _)| c == "identity")) {
                (Some(g), Some(i)) => Some(g.1.cmp(&i.1)),
                _ => None,
            };
            Some((q("gzip"), q("identity"), q("*"), cmp, l.len().min(4)))
        }
        _ => None,
    });
    let s0 = st.state(&("ae", want, profile));
    let s1 = st.state(&("ae-result", want, r.as_ref().ok().copied()));
    st.transition(s0, 0, s1);
    st.outcome(format!("oracle={want:?}/impl={:?}", r.as_ref().ok()));
    let case = || json!({"engine": "neg_mc", "accept_encoding": v.map(crate::report::bytes_json)});
    match (&r, want) {
        (Err(m), _) => {
            if prop == "C16" {
                st.violation(order, "should-gzip-panic".into(), format!("should_gzip panicked: {m}"), case)
            }
        }
        (Ok(got), Some(w)) if *got != w => {
            if prop == "C16" {
                st.violation(
                    order,
                    format!("should-gzip:{w}->{got}"),
                    format!("Accept-Encoding {:?}: RFC 7231 5.3.4 says gzip preferred = {w}, should_gzip returned {got}", v.map(String::from_utf8_lossy)),
                    case,
                )
            }
        }
        _ => {}
    }
}

/// Enumerates all lists of exactly k elements over distinct codings.
fn lists_k(k: usize) -> Vec<Vec<usize>> {
    let mut out = Vec::new();
    fn rec(k: usize, cur: &mut Vec<usize>, out: &mut Vec<Vec<usize>>) {
        if cur.len() == k {
            out.push(cur.clone());
            return;
        }
        for c in 0..CODINGS.len() {
            if !cur.contains(&c) {
                cur.push(c);
                rec(k, cur, out);
                cur.pop();
            }
        }
    }
    rec(k, &mut Vec::new(), &mut out);
    out
}

pub fn run_c16(run: &mut Run) -> Stats {
    let tier = run.tier;
    let kmax = tier.pick(3, 4);
    let prop = run.prop.clone();
    run.rule = format!("absent header; every list of 0..{kmax} elements over distinct codings {{gzip, identity, *, br, deflate, x-gzip}} x every weight in {{none, 0, 0., 0.0, 0.000, 0.001, 0.5, 0.999, 1, 1., 1.000}} per element x 5 whitespace styles (',' / ', ' / ' ; ' / tabs / ' , '), compared with an independent evaluator of RFC 7231 5.3.4 written from the statement (qualities as integers in thousandths, identity default = least-preferred acceptable); lists of up to 42 distinct codings with the deciding elements first and last; every pair of adjacent weights (w-1 and w thousandths, w = 1..1000) between gzip and identity / '*'; lists with a repeated coding, and every string of <= n symbols over {{g z * ; q = 0 1 . , SP 0xFF U+00E9 U+20AC (UTF-8)}} and every weight string of length <= 6 over {{0 1 9 .}}: no panic (and agreement wherever the evaluator has a verdict); every ordered pair of 30 neighbouring values as two calls on one thread: the second answer must equal the answer on a fresh thread. non-trivial = distinct header values with a verdict from the evaluator");
    let mut outer: Vec<Vec<usize>> = Vec::new();
    for k in 0..=kmax {
        outer.extend(lists_k(k));
    }
    run.bounds = json!({"max_elements": kmax, "coding_lists": outer.len(), "weights": WEIGHTS.len(), "whitespace_styles": 5});
    // should_gzip is a function of the header map: what it answers must not depend on what the
    // thread asked before. Every ordered pair of 30 values that lie close together (letter case,
    // weight spelling, one character, one element more) as two calls on one fresh thread; the
    // second answer must equal the answer on a fresh thread (grey values included: whatever
    // should_gzip says about them, it must say it every time).
    let mut hist = Stats::new();
    {
        let vals: Vec<Option<Vec<u8>>> = [
            None, Some(""), Some("gzip"), Some("GZIP"), Some("Gzip"), Some("gzip "), Some(" gzip"), Some("gzip,"), Some("gzip;q=1"), Some("gzip;q=0"), Some("gzip;q=0.0"), Some("gzip;q=0.001"),
            Some("gzip;Q=0.5"), Some("gzip;q=0.5"), Some("gzip;q=0.5, identity;q=0.6"), Some("gzip;q=0.6, identity;q=0.5"), Some("identity;q=0.5, gzip;q=0.6"), Some("identity"), Some("identity;q=0"),
            Some("*"), Some("*;q=0"), Some("*;q=0, gzip"), Some("gzip, *;q=0"), Some("br"), Some("br, gzip"), Some("gzip, br"), Some("x-gzip"), Some("gzipp"), Some("gzi"), Some("gzip;q=2"),
        ]
        .iter()
        .map(|v| v.map(|s| s.as_bytes().to_vec()))
        .collect();
        let alone: Vec<Result<bool, String>> = vals.iter().map(|b| std::thread::scope(|sc| sc.spawn(|| call_should_gzip(b.as_deref())).join().unwrap_or(Err("thread".into())))).collect();
        let mut k = 0u64;
        for (ai, a) in vals.iter().enumerate() {
            for (bi, b) in vals.iter().enumerate() {
                if ai == bi {
                    continue;
                }
                k += 1;
                let rb = std::thread::scope(|sc| {
                    sc.spawn(|| {
                        let _ = call_should_gzip(a.as_deref());
                        call_should_gzip(b.as_deref())
                    })
                    .join()
                    .unwrap_or(Err("thread".into()))
                });
                hist.evaluations += 2;
                hist.nontrivial(&("c16-seq", a, b));
                hist.count("two_calls_on_one_thread", 1);
                let s0 = hist.state(&("c16-seq", alone[ai].clone().ok(), alone[bi].clone().ok()));
                let s1 = hist.state(&("c16-seq-out", rb.clone().ok()));
                hist.transition(s0, 0, s1);
                hist.outcome(format!("second-call/{}", if rb == alone[bi] { "same-as-alone" } else { "differs" }));
                if rb != alone[bi] && prop == "C16" {
                    let (a2, b2) = (a.clone(), b.clone());
                    hist.violation((1 << 55) + k, "should-gzip:depends-on-earlier-call".into(), format!("should_gzip({:?}) right after should_gzip({:?}) on the same thread gives {rb:?}; on a fresh thread it gives {:?}", b.as_ref().map(|v| String::from_utf8_lossy(v).to_string()), a.as_ref().map(|v| String::from_utf8_lossy(v).to_string()), alone[bi]), move || json!({"engine": "neg_mc", "accept_encoding": b2.as_ref().map(|v| crate::report::bytes_json(v)), "previous_accept_encoding": a2.as_ref().map(|v| crate::report::bytes_json(v))}));
                }
            }
        }
    }
    let mut total = par_for(outer.len() as u64, threads(), |i, st| {
        let codings = &outer[i as usize];
        let k = codings.len();
        let n = (WEIGHTS.len() as u64).pow(k as u32);
        for wi in 0..n {
            let mut x = wi;
            let elems: Vec<(usize, usize)> = codings
                .iter()
                .map(|c| {
                    let w = (x % WEIGHTS.len() as u64) as usize;
                    x /= WEIGHTS.len() as u64;
                    (*c, w)
                })
                .collect();
            for ws in 0..5 {
                if k == 0 && ws > 0 {
                    break;
                }
                let h = render(&elems, ws);
                st.nontrivial(&h);
                judge(Some(h.as_bytes()), st, (i << 32) | (wi << 3) | ws as u64, &prop);
                st.sample(1, || json!({"accept_encoding": h, "evaluator": prefers_gzip(Some(h.as_bytes()))}));
            }
        }
    });
    // absent
    let mut st = Stats::new();
    judge(None, &mut st, 0, &prop);
    // repeated codings (no verdict, no panic)
    for a in 0..CODINGS.len() {
        for wa in 0..WEIGHTS.len() {
            for wb in 0..WEIGHTS.len() {
                let h = render(&[(a, wa), (a, wb)], 1);
                judge(Some(h.as_bytes()), &mut st, 1 << 50, &prop);
            }
        }
    }
    // coding tokens that merely resemble gzip / identity / *: they are other codings
    for tok in ["gzip2", "gzipp", "gzi", "xgzip", "gzip-foo", "gzip.gz", "x-gzip", "identity2", "identit", "**", "*gzip", "gzip*", "g", "deflate"] {
        for w in [None, Some("0"), Some("0.5"), Some("1")] {
            let a = match w {
                None => tok.to_string(),
                Some(q) => format!("{tok};q={q}"),
            };
            for rest in ["", ", identity;q=0.5", ", identity;q=0", ", *;q=0", ", gzip;q=0.2, identity;q=0.3", ", br"] {
                let h = format!("{a}{rest}");
                st.nontrivial(&h);
                judge(Some(h.as_bytes()), &mut st, (1 << 48) + h.len() as u64, &prop);
                let h2 = format!("{}{a}", rest.trim_start_matches(", ").to_string() + if rest.is_empty() { "" } else { ", " });
                judge(Some(h2.as_bytes()), &mut st, (1 << 48) + h2.len() as u64, &prop);
            }
        }
    }
    // long lists: up to 40 other (distinct) codings before / between the elements that decide
    for n in 0..=40usize {
        let others: Vec<String> = (0..n).map(|i| if i % 3 == 0 { format!("c{i};q=0.{}", i % 10) } else { format!("coding-{i}") }).collect();
        for (head, tail) in [
            ("*", "gzip;q=0"),
            ("*;q=0.5", "identity;q=0.9"),
            ("identity;q=0.5", "gzip"),
            ("gzip;q=0.2", "identity;q=0.3"),
            ("gzip;q=0.3", "identity;q=0.2"),
            ("identity;q=0", "*;q=0.001"),
            ("br", "gzip;q=0.001"),
        ] {
            let mut l = vec![head.to_string()];
            l.extend(others.iter().cloned());
            l.push(tail.to_string());
            for sep in [",", ", "] {
                let h = l.join(sep);
                st.nontrivial(&h);
                judge(Some(h.as_bytes()), &mut st, (1 << 49) + n as u64, &prop);
            }
        }
    }
    // weight strings
    let wa = [b'0', b'1', b'9', b'.'];
    for len in 0..=6u32 {
        for x in 0..4u64.pow(len) {
            let mut y = x;
            let w: Vec<u8> = (0..len)
                .map(|_| {
                    let c = wa[(y % 4) as usize];
                    y /= 4;
                    c
                })
                .collect();
            let mut h = b"gzip;q=".to_vec();
            h.extend(&w);
            st.nontrivial(&h);
            judge(Some(&h), &mut st, (1 << 51) + x, &prop);
            let mut h2 = b"identity;q=0.5,gzip;q=".to_vec();
            h2.extend(&w);
            judge(Some(&h2), &mut st, (1 << 51) + x, &prop);
        }
    }
    total.merge(hist);
    total.merge(st);
    // Every pair of ADJACENT weights (w-1, w thousandths) between gzip and identity / '*', both
    // ways round: a qvalue parser that is off by a thousandth anywhere on the scale shows here.
    {
        let mut st = Stats::new();
        let q = |w: u32| if w >= 1000 { "1".to_string() } else { format!("0.{w:03}") };
        for w in 1..=1000u32 {
            for h in [
                format!("gzip;q={}, identity;q={}", q(w - 1), q(w)),
                format!("gzip;q={}, identity;q={}", q(w), q(w - 1)),
                format!("identity;q={}, gzip;q={}", q(w), q(w)),
                format!("gzip;q={}, *;q={}", q(w - 1), q(w)),
                format!("*;q={}, identity;q={}", q(w), q(w - 1)),
                format!("br;q={}, gzip;q={}, identity;q={}", q(w), q(w), q(w - 1)),
            ] {
                st.nontrivial(&h);
                judge(Some(h.as_bytes()), &mut st, (1 << 50) + w as u64, &prop);
            }
        }
        total.merge(st);
    }
    // arbitrary short strings
    // symbols, not bytes: the two multi-byte symbols are well-formed UTF-8 characters (a value that
    // is valid UTF-8 but not ASCII takes other paths through str-based parsing than a stray 0xFF)
    let alpha: [&[u8]; 14] = [b"g", b"z", b"*", b";", b"q", b"=", b"0", b"1", b".", b",", b" ", b"\xff", b"\xc3\xa9", b"\xe2\x82\xac"];
    let na = alpha.len() as u64;
    let maxlen = tier.pick(5, 7);
    let mut nstr = 0u64;
    for l in 0..=maxlen {
        nstr += na.pow(l);
    }
    run.extra.insert("arbitrary_strings".into(), json!({"alphabet_symbols": na, "max_len_in_symbols": maxlen, "count": nstr}));
    let st2 = par_for(nstr, threads(), |i, st| {
        let mut x = i;
        let mut k = 0u32;
        let mut block = 1u64;
        while x >= block {
            x -= block;
            k += 1;
            block = na.pow(k);
        }
        let mut v: Vec<u8> = Vec::new();
        for _ in 0..k {
            v.extend_from_slice(alpha[(x % na) as usize]);
            x /= na;
        }
        judge(Some(&v), st, (1 << 52) + i, &prop);
        // the same string as a weight and as a second element
        let mut h = b"gzip;q=0.5, ".to_vec();
        h.extend(&v);
        judge(Some(&h), st, (1 << 53) + i, &prop);
        // ... and after a coding that is not gzip (nothing here can allow gzip without a `*`)
        let mut h = b"br, ".to_vec();
        h.extend(&v);
        judge(Some(&h), st, (1 << 54) + i, &prop);
    });
    total.merge(st2);
    total
}

// -------------------------------------------------------------------------------------------
// C17 (+ HEAD half of C15)

/// Accept-Encoding values for C17: every C16 list of <= 2 elements, plus absent, empty and
/// hand-picked 3-element lists hitting each branch of the evaluator.
pub fn c17_values(tier: Tier) -> Vec<Option<String>> {
    let mut v: Vec<Option<String>> = vec![None, Some(String::new())];
    let kmax = 2;
    for k in 1..=kmax {
        for codings in lists_k(k) {
            let n = (WEIGHTS.len() as u64).pow(k as u32);
            for wi in 0..n {
                let mut x = wi;
                let elems: Vec<(usize, usize)> = codings
                    .iter()
                    .map(|c| {
                        let w = (x % WEIGHTS.len() as u64) as usize;
                        x /= WEIGHTS.len() as u64;
                        (*c, w)
                    })
                    .collect();
                // thin the weight alphabet for 2-element lists in the quick tier
                if k == 2 && tier == Tier::Quick && elems.iter().any(|(_, w)| [2, 3, 9, 10, 12, 13, 14, 15, 16].contains(w)) {
                    continue;
                }
                v.push(Some(render(&elems, 1)));
            }
        }
    }
    for s in [
        "identity;q=0.5, gzip;q=0.5, *;q=0",
        "identity;q=0.501, gzip;q=0.5, br",
        "*;q=0.3, identity;q=0.2, br;q=1",
        "*;q=0.3, identity;q=0.4, br;q=1",
        "br, deflate, x-gzip",
        "gzip;q=0, identity;q=0, *;q=1",
        "identity;q=0, *;q=0, gzip;q=0.001",
        "x-gzip, identity;q=0, br",
        "deflate;q=0.9, gzip;q=0.8, identity;q=0.7",
        "deflate;q=0.9, gzip;q=0.7, identity;q=0.8",
        "gzip;q=1.000, *;q=0.999, identity",
        "gzip;q=0.999, *;q=1.000, br;q=0",
        "*, identity;q=0, gzip;q=0",
        "br;q=0.5, gzip, identity;q=0.999",
        "gzip;q=0.5, identity;q=0.5, br;q=0.5",
        "not a header",
        "gzip;q=2",
        "gzip;level=9",
        "GZIP",
        "gzip;Q=0",
        // the header given as two lines
        "gzip\nidentity;q=0",
        "identity;q=0\ngzip",
        "br\ngzip;q=0.5",
        "gzip;q=0\n*",
        "*\ngzip;q=0",
        "identity\nidentity;q=0, gzip",
        // obs-text (bytes >= 0x80, here as well-formed UTF-8) next to elements that allow gzip:
        // HeaderValue::to_str() fails on these, so should_gzip says false
        "gzip, \u{fc}",
        "\u{e9}, *",
        "gzip;q=1, identity;q=0.5, caf\u{e9}",
        "\u{20ac}",
    ] {
        v.push(Some(s.to_string()));
    }
    v
}

/// Writer histories of C17, passed in the `payload_len` slot: a plain number n means
/// `write_all(n); flush; drop`; the codes below name histories of another shape.
pub const H_DROP_ONLY: usize = 1_000_001; // drop without a single write or flush
pub const H_FLUSH_ONLY: usize = 1_000_002; // flush; drop
pub const H_NO_FLUSH: usize = 1_000_003; // write_all(300); drop
pub const H_SHORT_LONG_SHORT: usize = 1_000_004; // write(6); write_all(3000); write_all(7); drop
pub const H_MANY_SMALL: usize = 1_000_005; // 40 x write_all(17); flush; write_all(1); drop
pub const H_VECTORED: usize = 1_000_006; // write_vectored(20 bytes in 3 slices) x 2; flush; write_vectored(5); drop
pub const C17_HISTORIES: [usize; 8] = [0, 300, H_DROP_ONLY, H_FLUSH_ONLY, H_NO_FLUSH, H_SHORT_LONG_SHORT, H_MANY_SMALL, H_VECTORED];

pub fn c17_case(ae: &Option<String>, level: u32, chunk: usize, method: &str, as_parts: bool, payload_len: usize, out: &mut Vec<Finding>) -> Option<String> {
    c17_case_calls(ae, level, chunk, method, as_parts, payload_len, &[], out)
}

#[allow(clippy::too_many_arguments)]
pub fn c17_case_calls(ae: &Option<String>, level: u32, chunk: usize, method: &str, as_parts: bool, payload_len: usize, pre: &[Option<u32>], out: &mut Vec<Finding>) -> Option<String> {
    let cfg = Config { chunk, level, accept: ae.clone(), payload: Payload::Rand, fresh_wakers: false, hop_threads: false };
    let mut x = match Exec::new_calls(&cfg, method, as_parts, pre) {
        Ok(x) => x,
        Err(m) => {
            if m.contains("panic") || !m.contains("header") {
                out.push(Finding { props: vec!["C17"], key: "build-failed".into(), msg: format!("streaming_body/build failed: {m}") });
            }
            return None;
        }
    };
    let hdr = |n: &str| -> Vec<&Vec<u8>> { x.resp_headers.iter().filter(|(k, _)| k == n).map(|(_, v)| v).collect() };
    let mut fs = Vec::new();
    let vary_ok = hdr("vary").iter().any(|v| String::from_utf8_lossy(v).to_ascii_lowercase().split(',').any(|t| t.trim() == "accept-encoding"));
    if !vary_ok {
        fs.push(Finding { props: vec!["C17"], key: "vary-missing".into(), msg: format!("Vary is {:?}", hdr("vary").iter().map(|v| String::from_utf8_lossy(v).to_string()).collect::<Vec<_>>()) });
    }
    let ce: Vec<String> = hdr("content-encoding").iter().map(|v| String::from_utf8_lossy(v).to_string()).collect();
    let says_gzip = ce.iter().any(|v| v == "gzip");
    if ce.iter().any(|v| v != "gzip") || ce.len() > 1 {
        fs.push(Finding { props: vec!["C17"], key: "content-encoding-other".into(), msg: format!("Content-Encoding {ce:?}") });
    }
    // The statement defers to what should_gzip decides; the independent evaluator is used
    // where it has a verdict, should_gzip itself elsewhere (C16 ties the two together).
    let want_pref = if ae.as_ref().map(|s| s.contains('\n')).unwrap_or(false) {
        // several header lines: "as should_gzip decides" on the very same header map
        let mut h = http::HeaderMap::new();
        for line in ae.as_ref().unwrap().split('\n') {
            h.append(http::header::ACCEPT_ENCODING, http::HeaderValue::from_bytes(line.as_bytes()).unwrap());
        }
        catch_unwind(AssertUnwindSafe(|| http_serve::should_gzip(&h))).unwrap_or(false)
    } else {
        match prefers_gzip(ae.as_ref().map(|s| s.as_bytes())) {
            Some(b) => b,
            None => call_should_gzip(ae.as_ref().map(|s| s.as_bytes())).unwrap_or(false),
        }
    };
    let want = want_pref && level > 0;
    if says_gzip != want {
        fs.push(Finding { props: vec!["C17"], key: format!("content-encoding:{want}->{says_gzip}"), msg: format!("Accept-Encoding {ae:?}, level {level}: gzip expected = {want}, Content-Encoding says {ce:?}") });
    }
    let summary;
    if method == "HEAD" {
        if x.w.is_some() {
            fs.push(Finding { props: vec!["C15", "C17"], key: "head-writer".into(), msg: "streaming_body returned a writer for HEAD".into() });
        } else {
            // the HEAD response's body is empty: it ends at once, without a byte
            let hz = x.frame_horizon();
            x.term = crate::stream_mc::Term::WriterDropped;
            x.poll_until_pending(hz);
            if !x.delivered.is_empty() || !matches!(x.terminal_seen, Some(Obs::End)) {
                fs.push(Finding { props: vec!["C15"], key: "head-body-not-empty".into(), msg: format!("streaming_body for HEAD: the body delivered {} byte(s), terminal event {:?}", x.delivered.len(), x.terminal_seen.as_ref().map(|o| o.kind())) });
            }
        }
        summary = format!("HEAD/{}", if says_gzip { "gzip" } else { "identity" });
    } else {
        if x.w.is_none() {
            fs.push(Finding { props: vec!["C17", "C08"], key: "no-writer".into(), msg: format!("no writer for {method}") });
            out.extend(fs);
            return Some(format!("{method}/no-writer"));
        }
        // the writer history (see `C17_HISTORIES`), then drain
        let payload_len = match payload_len {
            H_DROP_ONLY => 0,
            H_FLUSH_ONLY => {
                x.flush_op();
                0
            }
            H_NO_FLUSH => {
                x.write_op(300, true);
                300
            }
            H_SHORT_LONG_SHORT => {
                // pieces of very different sizes, no flush in between
                x.write_op(6, false);
                x.write_op(3000, true);
                x.write_op(7, true);
                x.accepted.len()
            }
            H_VECTORED => {
                x.write_op_kind(20, 2);
                x.write_op_kind(20, 2);
                x.flush_op();
                x.write_op_kind(5, 2);
                x.accepted.len()
            }
            H_MANY_SMALL => {
                for _ in 0..40 {
                    x.write_op(17, true);
                }
                x.flush_op();
                x.write_op(1, true);
                x.accepted.len()
            }
            n => {
                // W(all); F
                x.write_op(n, true);
                x.flush_op();
                n
            }
        };
        let _ = payload_len;
        let payload_len = x.accepted.len();
        x.drop_writer();
        let hz = x.frame_horizon();
        x.poll_until_pending(hz);
        let body = x.delivered.clone();
        let clean = matches!(x.terminal_seen, Some(Obs::End));
        if !clean {
            fs.push(Finding { props: vec!["C17"], key: "body-not-clean".into(), msg: format!("body terminal event {:?}", x.terminal_seen.as_ref().map(|o| o.kind())) });
        }
        let payload = Payload::Rand.slice(0, payload_len);
        if says_gzip {
            if let Err(e) = gzip::verify_member(&body, &payload) {
                fs.push(Finding { props: vec!["C17"], key: "says-gzip-body-not-gzip".into(), msg: format!("Content-Encoding: gzip but the body is not one gzip member of the payload: {e}") });
            }
        } else if body != payload {
            let is_gz = gzip::looks_like_gzip(&body);
            fs.push(Finding { props: vec!["C17"], key: "identity-body-differs".into(), msg: format!("no Content-Encoding, but the body ({} bytes{}) is not the payload ({} bytes) verbatim", body.len(), if is_gz { ", gzip magic" } else { "" }, payload.len()) });
        }
        fs.extend(std::mem::take(&mut x.out).into_iter().filter(|f| f.props.contains(&"C17")));
        summary = format!("{method}/{}", if says_gzip { "gzip" } else { "identity" });
    }
    out.extend(fs);
    Some(format!("{summary}|{:?}", {
        let mut h = x.resp_headers.clone();
        h.sort();
        h
    }))
}

pub fn run_c17(run: &mut Run) -> Stats {
    let tier = run.tier;
    let values = c17_values(tier);
    let prop = run.prop.clone();
    run.rule = "Accept-Encoding values {absent, empty, every C16 list of <= 2 elements, 20 hand-picked 3-element / malformed values} x gzip level 0..9 x chunk size {1, 7, 4096} x methods {GET, HEAD, POST} x request given as http::Request and as http::request::Parts x writer histories {write_all(n); flush; drop for n in {0, 300}; drop only; flush, drop; write_all(300), drop; write(6), write_all(3000), write_all(7), drop; 40 x write_all(17), flush, write_all(1), drop; write_vectored(20 bytes in three slices) twice, flush, write_vectored(5), drop} (the last six at levels 0, 1, 6, 9). Oracle: Vary names accept-encoding; Content-Encoding: gzip iff (independent evaluator prefers gzip) and level > 0, never another coding; body sniffed by the independent decoder: says gzip <=> exactly one gzip member of the payload, otherwise the payload verbatim; both request representations give identical headers; HEAD: same headers, no writer, empty body; earlier builder calls that are overridden, and the two final builder calls in either order, must not matter; other request headers (Cache-Control: no-transform, Range, TE, Content-Encoding, User-Agent ...) must not matter; every ordered pair of 20 Accept-Encoding values (differing in letter case, weight spelling, one character) as two requests on one thread: the second answer is judged as usual and must equal the answer on a fresh thread. non-trivial = distinct (Accept-Encoding, level, chunk, method, representation, payload)".into();
    run.bounds = json!({"accept_encoding_values": values.len(), "levels": 10, "chunk_sizes": [1, 7, 4096], "methods": 3});
    // Histories of two negotiations on ONE thread: what streaming_body answers for a request must
    // not depend on the request this thread served before it (a memo keyed too loosely, a cached
    // verdict). Values that differ only in letter case, in the spelling of a weight, in one
    // character are next to each other here; each second answer is judged by the usual oracle and
    // compared with the answer the same request gets on a fresh thread.
    let mut seq = Stats::new();
    {
        let vals: Vec<Option<String>> = [
            Some("gzip"), Some("GZIP"), Some("Gzip"), Some("gzip "), Some("identity"), Some("gzip;q=0.5, identity;q=0.6"), Some("gzip;Q=0.5, identity;q=0.6"), Some("gzip;q=0.6, identity;q=0.5"),
            Some("GZIP;q=1"), Some("*"), Some("*;q=0"), Some("br"), Some(""), None, Some("gzip;q=0"), Some("gzip;q=0.0"), Some("gzip;q=0.001"), Some("identity;q=0"), Some("gzip, identity;q=0"), Some("x-gzip"),
        ]
        .iter()
        .map(|v| v.map(|s| s.to_string()))
        .collect();
        let alone: Vec<Option<String>> = vals.iter().map(|b| std::thread::scope(|sc| sc.spawn(|| c17_case(b, 6, 7, "GET", false, 0, &mut Vec::new())).join().unwrap_or(None))).collect();
        let mut k = 0u64;
        for (ai, a) in vals.iter().enumerate() {
            for (bi, b) in vals.iter().enumerate() {
                if ai == bi {
                    continue;
                }
                for level in [6u32, 0] {
                    k += 1;
                    let (rb, fs) = std::thread::scope(|sc| {
                        sc.spawn(|| {
                            let _ = c17_case(a, 6, 7, "GET", false, 0, &mut Vec::new());
                            let mut fs = Vec::new();
                            let r = c17_case(b, level, 7, "GET", false, 0, &mut fs);
                            (r, fs)
                        })
                        .join()
                        .unwrap_or((None, Vec::new()))
                    });
                    seq.evaluations += 2;
                    seq.nontrivial(&("c17-seq", a, b, level));
                    seq.count("two_negotiations_on_one_thread", 1);
                    let s0 = seq.state(&("c17-seq", prefers_gzip(a.as_ref().map(|s| s.as_bytes())), prefers_gzip(b.as_ref().map(|s| s.as_bytes()))));
                    let s1 = seq.state(&("c17-seq-out", rb.as_ref().and_then(|r| r.split('|').next().map(|s| s.to_string()))));
                    seq.transition(s0, level as u64, s1);
                    seq.outcome(format!("after-another-request/{}", rb.as_ref().and_then(|r| r.split('|').next()).unwrap_or("none")));
                    for f in fs {
                        if f.props.contains(&prop.as_str()) {
                            seq.violation((1 << 62) + k, format!("{}:after-another-request", f.key), format!("{} (the thread had served Accept-Encoding {a:?} just before)", f.msg), || json!({"engine": "neg_mc_c17", "accept_encoding": b, "level": level, "chunk": 7, "method": "GET", "as_parts": false, "payload_len": 0, "previous_accept_encoding": a}));
                        }
                    }
                    if level == 6 && rb != alone[bi] && prop == "C17" {
                        seq.violation((1 << 62) + k, "depends-on-earlier-request".into(), format!("Accept-Encoding {b:?} right after a request with {a:?} on the same thread gives {:?}; on a fresh thread it gives {:?}", rb.as_ref().and_then(|r| r.split('|').next()), alone[bi].as_ref().and_then(|r| r.split('|').next())), || json!({"engine": "neg_mc_c17", "accept_encoding": b, "level": 6, "chunk": 7, "method": "GET", "as_parts": false, "payload_len": 0, "previous_accept_encoding": a}));
                    }
                }
            }
        }
    }
    let mut total = par_for(values.len() as u64, threads(), |i, st| {
        let ae = &values[i as usize];
        let mut order = i << 32;
        for level in 0..=9u32 {
            for chunk in [1usize, 7, 4096] {
                let mut get_headers: Option<String> = None;
                for method in ["GET", "HEAD", "POST"] {
                    for plen in C17_HISTORIES {
                        if method == "HEAD" && plen > 0 {
                            continue;
                        }
                        // the other history shapes: not for every level
                        if plen > 300 && ![0u32, 1, 6, 9].contains(&level) {
                            continue;
                        }
                        let mut reprs = Vec::new();
                        for as_parts in [false, true] {
                            order += 1;
                            let mut fs = Vec::new();
                            let r = c17_case(ae, level, chunk, method, as_parts, plen, &mut fs);
                            let Some(r) = r else { continue };
                            st.evaluations += 1;
                            st.nontrivial(&(ae, level, chunk, method, as_parts, plen));
                            let s0 = st.state(&("c17", prefers_gzip(ae.as_ref().map(|s| s.as_bytes())), level > 0, method));
                            let s1 = st.state(&("c17-out", r.split('|').next().map(|s| s.to_string())));
                            st.transition(s0, hash_of(&as_parts), s1);
                            st.outcome(r.split('|').next().unwrap_or("").to_string());
                            reprs.push(r.clone());
                            for f in fs {
                                if f.props.contains(&prop.as_str()) {
                                    st.violation(order, f.key.clone(), f.msg.clone(), || json!({"engine": "neg_mc_c17", "accept_encoding": ae, "level": level, "chunk": chunk, "method": method, "as_parts": as_parts, "payload_len": plen}));
                                }
                            }
                            st.sample(2, || json!({"accept_encoding": ae, "level": level, "chunk": chunk, "method": method, "as_parts": as_parts, "outcome": r.split('|').next()}));
                        }
                        if reprs.len() == 2 && reprs[0] != reprs[1] && (prop == "C17") {
                            st.violation(order, "request-vs-parts".into(), format!("Request and Parts representations differ: {} vs {}", reprs[0], reprs[1]), || json!({"engine": "neg_mc_c17", "accept_encoding": ae, "level": level, "chunk": chunk, "method": method, "as_parts": true, "payload_len": plen}));
                        }
                        // earlier builder calls that are overridden later must not matter
                        if let Some(base) = reprs.first() {
                            if plen == 0 && (level == 0 || level == 1 || level == 6) {
                                for pre in [vec![Some(0u32)], vec![Some(9)], vec![None, Some(0)], vec![Some(0), None, Some(3)], vec![Some(5), Some(0)], vec![Some(u32::MAX)], vec![Some(3), Some(u32::MAX)], vec![None, Some(u32::MAX)]] {
                                    order += 1;
                                    let mut fs = Vec::new();
                                    let r = c17_case_calls(ae, level, chunk, method, false, plen, &pre, &mut fs);
                                    st.evaluations += 1;
                                    st.nontrivial(&(ae, level, chunk, method, &pre));
                                    st.count("builder_call_sequences", 1);
                                    let differs = r.as_ref() != Some(base);
                                    for f in fs {
                                        if f.props.contains(&prop.as_str()) {
                                            st.violation(order, format!("{}:after-earlier-builder-calls", f.key), f.msg.clone(), || json!({"engine": "neg_mc_c17", "accept_encoding": ae, "level": level, "chunk": chunk, "method": method, "as_parts": false, "payload_len": plen, "earlier_builder_calls": format!("{pre:?}")}));
                                        }
                                    }
                                    if differs && prop == "C17" {
                                        st.violation(order, "builder-call-order".into(), format!("earlier builder calls {pre:?} (overridden by the final with_chunk_size/with_gzip_level) change the response: {r:?} vs {base}"), || json!({"engine": "neg_mc_c17", "accept_encoding": ae, "level": level, "chunk": chunk, "method": method, "as_parts": false, "payload_len": plen, "earlier_builder_calls": format!("{pre:?}")}));
                                    }
                                }
                            }
                        }
                        // other request headers must not matter: the decision is stated in terms of
                        // Accept-Encoding (as should_gzip reads it) and the configured level alone
                        if let Some(base) = reprs.first() {
                            if plen == 0 && (level == 0 || level == 6) && chunk == 7 {
                                let other: [&[(&str, &str)]; 3] = [
                                    &[("cache-control", "no-transform"), ("range", "bytes=0-1"), ("te", "gzip")],
                                    &[("content-encoding", "gzip"), ("accept", "text/html;q=0.5"), ("if-none-match", "\"x\""), ("pragma", "no-cache")],
                                    &[("user-agent", "MSIE 6.0"), ("via", "1.0 proxy"), ("accept-charset", "utf-8"), ("transfer-encoding", "chunked"), ("x-forwarded-for", "10.0.0.1")],
                                ];
                                for o in other {
                                    order += 1;
                                    let cfg = Config { chunk, level, accept: ae.clone(), payload: Payload::Rand, fresh_wakers: false, hop_threads: false };
                                    if let Ok(x) = Exec::new_calls_with(&cfg, method, false, &[], o) {
                                        st.evaluations += 1;
                                        st.count("requests_with_other_headers", 1);
                                        let mut h = x.resp_headers.clone();
                                        h.sort();
                                        let hdrs = format!("{h:?}");
                                        let base_hdrs = base.split('|').nth(1).unwrap_or("").to_string();
                                        if hdrs != base_hdrs && prop == "C17" {
                                            st.violation(order, "other-request-headers-matter".into(), format!("the same Accept-Encoding and level give other response headers when the request also carries {o:?}: {hdrs} vs {base_hdrs}"), || json!({"engine": "neg_mc_c17", "accept_encoding": ae, "level": level, "chunk": chunk, "method": method, "as_parts": false, "payload_len": plen, "other_request_headers": format!("{o:?}")}));
                                        }
                                    }
                                }
                            }
                        }
                        // HEAD mirrors GET (headers)
                        if let Some(r) = reprs.first() {
                            let hdrs = r.split('|').nth(1).unwrap_or("").to_string();
                            if method == "GET" && plen == 0 {
                                get_headers = Some(hdrs);
                            } else if method == "HEAD" {
                                if let Some(g) = &get_headers {
                                    if *g != hdrs && (prop == "C15" || prop == "C17") {
                                        st.violation(order, "head-vs-get-headers".into(), format!("streaming_body headers for HEAD {hdrs} differ from GET {g}"), || json!({"engine": "neg_mc_c17", "accept_encoding": ae, "level": level, "chunk": chunk, "method": "HEAD", "as_parts": false, "payload_len": 0}));
                                    }
                                }
                            }
                        }
                    }
                }
            }
        }
    });
    total.merge(seq);
    total
}

pub fn replay(case: &serde_json::Value, prop: &str) -> i32 {
    if case["engine"] == "neg_mc" {
        let v = if case["accept_encoding"].is_null() { None } else { Some(crate::report::bytes_from_json(&case["accept_encoding"])) };
        if let Some(prev) = case.get("previous_accept_encoding") {
            // a history of two calls on one thread
            let pv = if prev.is_null() { None } else { Some(crate::report::bytes_from_json(prev)) };
            let v2 = v.clone();
            let alone = std::thread::spawn(move || call_should_gzip(v2.as_deref())).join().unwrap_or(Err("thread".into()));
            let _ = call_should_gzip(pv.as_deref());
            let r = call_should_gzip(v.as_deref());
            println!("after should_gzip({:?}): should_gzip({:?}) -> {r:?}; on a fresh thread -> {alone:?}", pv.as_ref().map(|b| String::from_utf8_lossy(b).to_string()), v.as_ref().map(|b| String::from_utf8_lossy(b).to_string()));
            return if r != alone && prop == "C16" { 1 } else { 0 };
        }
        let r = call_should_gzip(v.as_deref());
        let want = prefers_gzip(v.as_deref());
        println!("Accept-Encoding {:?}: should_gzip -> {r:?}; evaluator -> {want:?}", v.as_ref().map(|b| String::from_utf8_lossy(b).to_string()));
        let bad = match (&r, want) {
            (Err(_), _) => true,
            (Ok(g), Some(w)) => *g != w,
            _ => false,
        };
        return if bad && prop == "C16" { 1 } else { 0 };
    }
    let ae = case["accept_encoding"].as_str().map(|s| s.to_string());
    let mut fs = Vec::new();
    // a history of two requests on one thread: serve the earlier one first (replay runs on the
    // main thread, which has served nothing else)
    let mut alone: Option<Option<String>> = None;
    if case.get("previous_accept_encoding").is_some() {
        let (ae2, lv, ch, me) = (ae.clone(), case["level"].as_u64().unwrap() as u32, case["chunk"].as_u64().unwrap() as usize, case["method"].as_str().unwrap().to_string());
        alone = Some(std::thread::spawn(move || c17_case(&ae2, lv, ch, &me, false, 0, &mut Vec::new())).join().unwrap_or(None));
        let prev = case["previous_accept_encoding"].as_str().map(|s| s.to_string());
        let _ = c17_case(&prev, 6, 7, "GET", false, 0, &mut Vec::new());
        println!("(served Accept-Encoding {prev:?} on this thread first)");
    }
    let r = c17_case(
        &ae,
        case["level"].as_u64().unwrap() as u32,
        case["chunk"].as_u64().unwrap() as usize,
        case["method"].as_str().unwrap(),
        case["as_parts"].as_bool().unwrap_or(false),
        case["payload_len"].as_u64().unwrap_or(0) as usize,
        &mut fs,
    );
    println!("outcome: {r:?}");
    let mut bad = false;
    if let Some(a) = alone {
        if a != r {
            println!("VIOLATED [C17] depends-on-earlier-request: on a fresh thread the same request gives {a:?}");
            bad |= prop == "C17";
        }
    }
    for f in fs {
        let mine = f.props.contains(&prop);
        println!("{} [{}] {}: {}", if mine { "VIOLATED" } else { "(other property)" }, f.props.join(","), f.key, f.msg);
        bad |= mine;
    }
    if bad {
        1
    } else {
        0
    }
}
