//! Negative self-tests of the reference models: every oracle must *reject* a set of
//! hand-made wrong answers (an oracle that accepts everything would make every check vacuous).
//! Run with `cargo test --release --offline` in /verif/harness.

use mc::drive::Obs;
use mc::oracle::bodycmp::{match_stream, Match, Seg};
use mc::oracle::{accept, cond, gzip, multipart, range};
use mc::vbuf::content_vec;

fn lit(s: &[u8]) -> Obs {
    Obs::Real(s.to_vec())
}

fn good_multipart() -> Vec<Obs> {
    vec![
        lit(b"\r\n--B\r\nContent-Range: bytes 0-1/100\r\ncontent-type: text/plain\r\n\r\n"),
        Obs::Virt(0, 2),
        lit(b"\r\n--B\r\nContent-Range: bytes 5-9/100\r\ncontent-type: text/plain\r\n\r\n"),
        Obs::Virt(5, 3),
        Obs::Virt(8, 2),
        lit(b"\r\n--B--\r\n"),
    ]
}

fn verify(frames: &[Obs]) -> Result<multipart::Verified, String> {
    let hdrs = vec![("content-type".to_string(), b"text/plain".to_vec())];
    multipart::verify(b"B", frames.iter(), &[(0, 1), (5, 9)], 100, Some(&hdrs))
}

#[test]
fn multipart_accepts_the_good_body_and_rejects_each_defect() {
    let v = verify(&good_multipart()).expect("good body");
    assert!(v.complete);
    // wrong part order
    let mut f = good_multipart();
    f.swap(1, 3);
    assert!(verify(&f).is_err());
    // entity bytes shifted by one
    let mut f = good_multipart();
    f[1] = Obs::Virt(1, 2);
    assert!(verify(&f).is_err());
    // a gap between two chunks of one part
    let mut f = good_multipart();
    f[4] = Obs::Virt(9, 2);
    assert!(verify(&f).is_err());
    // literal entity bytes that differ from the content
    let mut f = good_multipart();
    let mut wrong = content_vec(0, 2);
    wrong[1] ^= 1;
    f[1] = Obs::Real(wrong);
    assert!(verify(&f).is_err());
    // literal entity bytes that match are fine
    let mut f = good_multipart();
    f[1] = Obs::Real(content_vec(0, 2));
    assert!(verify(&f).unwrap().complete);
    // wrong Content-Range numbers, wrong total length
    for bad in [&b"\r\n--B\r\nContent-Range: bytes 0-2/100\r\ncontent-type: text/plain\r\n\r\n"[..], b"\r\n--B\r\nContent-Range: bytes 0-1/101\r\ncontent-type: text/plain\r\n\r\n", b"\r\n--B\r\ncontent-type: text/plain\r\n\r\n", b"\r\n--B\r\nContent-Range: bytes 0-1/100\r\n\r\n", b"\r\n--B\r\nContent-Range: bytes 0-1/100\r\ncontent-type: text/plain\r\ncontent-type: text/plain\r\n\r\n", b"\r\n--X\r\nContent-Range: bytes 0-1/100\r\ncontent-type: text/plain\r\n\r\n", b"--B\r\nContent-Range: bytes 0-1/100\r\ncontent-type: text/html\r\n\r\n"] {
        let mut f = good_multipart();
        f[0] = lit(bad);
        assert!(verify(&f).is_err(), "{:?}", String::from_utf8_lossy(bad));
    }
    // missing / wrong closing delimiter, bytes after it
    let mut f = good_multipart();
    f[5] = lit(b"\r\n--B\r\n");
    assert!(verify(&f).is_err());
    let mut f = good_multipart();
    f.push(lit(b"x"));
    assert!(verify(&f).is_err());
    // a truncated body is reported as incomplete, not as complete
    let mut f = good_multipart();
    f.truncate(4);
    assert!(!verify(&f).unwrap().complete);
    // entity headers must be absent when none are expected
    assert!(multipart::verify(b"B", good_multipart().iter(), &[(0, 1), (5, 9)], 100, None).is_err());
    // the first delimiter may omit the leading CRLF, later ones may not
    let mut f = good_multipart();
    f[0] = lit(b"--B\r\nContent-Range: bytes 0-1/100\r\ncontent-type: text/plain\r\n\r\n");
    assert!(verify(&f).unwrap().complete);
    let mut f = good_multipart();
    f[2] = lit(b"--B\r\nContent-Range: bytes 5-9/100\r\ncontent-type: text/plain\r\n\r\n");
    assert!(verify(&f).is_err());
}

#[test]
fn boundary_parameter() {
    assert_eq!(multipart::boundary_of(b"multipart/byteranges; boundary=B").unwrap(), b"B");
    assert_eq!(multipart::boundary_of(b"Multipart/ByteRanges;boundary=\"x y\"").unwrap(), b"x y");
    assert!(multipart::boundary_of(b"multipart/mixed; boundary=B").is_err());
    assert!(multipart::boundary_of(b"multipart/byteranges").is_err());
    assert!(multipart::boundary_of(b"multipart/byteranges; boundary=").is_err());
}

#[test]
fn stream_matching() {
    let exp = vec![Seg::Ent(10, 5)];
    let ok = [Obs::Virt(10, 2), Obs::Virt(12, 3)];
    assert_eq!(match_stream(&exp, ok.iter()), Match::Exact);
    assert!(matches!(match_stream(&exp, [Obs::Virt(10, 2)].iter()), Match::Prefix { delivered: 2 }));
    assert!(matches!(match_stream(&exp, [Obs::Virt(10, 2), Obs::Virt(13, 2)].iter()), Match::Mismatch(_)));
    assert!(matches!(match_stream(&exp, [Obs::Virt(10, 6)].iter()), Match::Extra { extra: 1 }));
    assert!(matches!(match_stream(&exp, [Obs::Virt(11, 5)].iter()), Match::Mismatch(_)));
    // 2^64-1 bytes in three descriptors
    let exp = vec![Seg::Ent(0, u64::MAX)];
    let big = [Obs::Virt(0, 1), Obs::Virt(1, u64::MAX - 2), Obs::Virt(u64::MAX - 1, 1)];
    assert_eq!(match_stream(&exp, big.iter()), Match::Exact);
}

#[test]
fn gzip_verifier_rejects_broken_members() {
    use std::io::Write;
    let data = content_vec(0, 5000);
    let mut e = flate2::write::GzEncoder::new(Vec::new(), flate2::Compression::new(6));
    e.write_all(&data).unwrap();
    let good = e.finish().unwrap();
    gzip::verify_member(&good, &data).unwrap();
    // wrong content
    assert!(gzip::verify_member(&good, &data[..4999]).is_err());
    // corrupted CRC, corrupted ISIZE
    let n = good.len();
    for k in [n - 8, n - 1] {
        let mut b = good.clone();
        b[k] ^= 0x40;
        assert!(gzip::verify_member(&b, &data).is_err());
    }
    // trailing byte, truncated trailer, truncated stream, bad magic
    let mut b = good.clone();
    b.push(0);
    assert!(gzip::verify_member(&b, &data).is_err());
    assert!(gzip::verify_member(&good[..n - 1], &data).is_err());
    assert!(gzip::verify_member(&good[..n / 2], &data).is_err());
    let mut b = good.clone();
    b[1] = 0x8c;
    assert!(gzip::verify_member(&b, &data).is_err());
    // two members are not one
    let mut two = good.clone();
    two.extend_from_slice(&good);
    assert!(gzip::verify_member(&two, &data).is_err());
    // the incremental decoder agrees with the one-shot one, fed byte by byte
    let mut s = gzip::GzStream::new();
    for b in &good {
        s.feed(std::slice::from_ref(b));
    }
    s.verify_complete(&data).unwrap();
    assert!(s.verify_complete(&data[1..]).is_err());
}

#[test]
fn range_reference() {
    use range::{classify, resolve, RangeClass, Spec};
    assert_eq!(classify(Some(b"bytes=000000000000000000000000001-2")), RangeClass::Specs { specs: vec![Spec::FromTo(1, 2)], grey: false });
    assert_eq!(classify(Some(b"bytes=0-1,\t 2-")), RangeClass::Specs { specs: vec![Spec::FromTo(0, 1), Spec::From(2)], grey: false });
    for bad in [&b"bytes=0 -1"[..], b"bytes=0- 1x", b"bytes=0x1-2", b"bytes=1-2;3-4", b"octets=0-1", b"bytes", b"bytes=,", b"bytes=\xff-1"] {
        assert_eq!(classify(Some(bad)), RangeClass::MustIgnore, "{:?}", String::from_utf8_lossy(bad));
    }
    let r = resolve(&[Spec::FromTo(0, 0), Spec::From(10), Spec::Suffix(3), Spec::FromTo(9, 100), Spec::FromTo(5, 4)], 10);
    assert_eq!(r.ranges, vec![(0, 0), (7, 9), (9, 9)]);
    assert!(r.has_inverted);
    assert!(resolve(&[Spec::FromTo(0, 1 << 64)], 10).has_huge);
}

#[test]
fn conditional_reference() {
    use cond::{evaluate, CondInput, CondVerdict::*};
    let base = CondInput { etag: Some(b"\"v1\""), lm_sec: Some(1000), if_match: None, if_none_match: None, if_modified_since: None, if_unmodified_since: None };
    let d = |s: u64| mc::oracle::date::fmt_imf(s).into_bytes();
    assert_eq!(evaluate(&base), Continue);
    assert_eq!(evaluate(&CondInput { if_match: Some(b"W/\"v1\""), ..base_copy(&base) }), PreconditionFailed);
    assert_eq!(evaluate(&CondInput { if_match: Some(b"\"zz\", \"v1\""), if_unmodified_since: Some(&d(0)), ..base_copy(&base) }), Continue);
    assert_eq!(evaluate(&CondInput { if_unmodified_since: Some(&d(999)), ..base_copy(&base) }), PreconditionFailed);
    assert_eq!(evaluate(&CondInput { if_unmodified_since: Some(&d(1000)), ..base_copy(&base) }), Continue);
    assert_eq!(evaluate(&CondInput { if_none_match: Some(b"W/\"v1\""), ..base_copy(&base) }), NotModified);
    assert_eq!(evaluate(&CondInput { if_none_match: Some(b"\"zz\""), if_modified_since: Some(&d(2000)), ..base_copy(&base) }), Continue);
    assert_eq!(evaluate(&CondInput { if_modified_since: Some(&d(1000)), ..base_copy(&base) }), NotModified);
    assert_eq!(evaluate(&CondInput { if_modified_since: Some(&d(999)), ..base_copy(&base) }), Continue);
    assert_eq!(evaluate(&CondInput { if_match: Some(b"\"zz\""), if_none_match: Some(b"*"), ..base_copy(&base) }), PreconditionFailed);
    assert_eq!(evaluate(&CondInput { if_match: Some(b"\"v1\" , \"zz\""), ..base_copy(&base) }), Unconstrained);
    assert_eq!(evaluate(&CondInput { if_modified_since: Some(b"yesterday"), ..base_copy(&base) }), Unconstrained);
}

fn base_copy<'a>(b: &cond::CondInput<'a>) -> cond::CondInput<'a> {
    cond::CondInput { etag: b.etag, lm_sec: b.lm_sec, if_match: b.if_match, if_none_match: b.if_none_match, if_modified_since: b.if_modified_since, if_unmodified_since: b.if_unmodified_since }
}

#[test]
fn accept_encoding_reference() {
    use accept::prefers_gzip as p;
    assert_eq!(p(Some(b"gzip;q=0.5, *;q=1")), Some(false));
    assert_eq!(p(Some(b"gzip;q=0.5, *;q=0.5")), Some(true));
    assert_eq!(p(Some(b"identity;q=0, gzip;q=0.001")), Some(true));
    assert_eq!(p(Some(b"identity;q=0")), Some(false));
    assert_eq!(p(Some(b"x-gzip")), Some(false));
    assert_eq!(p(Some(b"gzip ; q=1.000 ,\tidentity")), Some(true));
    assert_eq!(p(Some(b"gzip;q=1.001")), None);
    assert_eq!(p(Some(b"GZIP")), None);
    assert_eq!(p(Some(b"gzip,,identity")), None);
}
