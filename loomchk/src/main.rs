//! Second, independent explorer for C10 / C11 (concurrent half): loom.
//!
//! `/repo/src/chunker.rs` and `/repo/src/gzip.rs` are compiled into this crate *as they are* by
//! `#[path]` inclusion, with the crate feature `verif-hooks` on, so that the line
//! `use {crate::verif_hooks::Mutex, std::sync::Arc};` of chunker.rs resolves to the loom-backed mutex
//! below. loom then enumerates every interleaving (DPOR, optionally preemption-bounded) of a real
//! producer thread with a real consumer, and reports a consumer that waits for a wake-up which never
//! comes as a deadlock. Wakers are built on `loom::sync::Notify`, one per waker generation, so that a
//! wake-up delivered to a stale waker does not release a consumer waiting on the current one.
//!
//! This is a cross-check of `sched_mc` (the hand-rolled scheduler in /verif/harness), not a
//! replacement: it shares no code with it and owns the interleaving choice through a different tool.
//!
//!   loomchk run <quick|thorough> <out.json>    explore all cases; exit 0 / 1 (violation) / 2
//!   loomchk case '<json case>'                 re-run one case (replay of a violation)

#![allow(dead_code)]

use serde_json::{json, Value};
use std::io::Write;
use std::sync::atomic::{AtomicU64, Ordering};
use std::sync::Arc as StdArc;
use std::task::{Context, Poll, Wake, Waker};

pub fn as_u64(len: usize) -> u64 {
    len as u64
}

pub mod verif_hooks {
    //! The seam: the same surface `chunker.rs` uses of `std::sync::Mutex`, backed by loom.
    //!
    //! loom has no scheduling point at a mutex *release*, so a critical section without other
    //! synchronisation inside is atomic to it. That is exact for `lock()` (a blocked acquirer
    //! cannot tell when inside the section it started to wait) but not for `try_lock()`, which
    //! observes "held". `chunker.rs` does not use `try_lock` today; should a change start to,
    //! `TRY_LOCK_USED` is raised, and from the next case on every holder writes a marker right
    //! after acquiring and right before releasing, which `try_lock` reads first: scheduling points
    //! inside the critical section at which loom runs the other thread's `try_lock` while the lock
    //! is held.
    use std::ops::{Deref, DerefMut};
    use std::sync::atomic::{AtomicBool, Ordering};
    use std::sync::{LockResult, PoisonError, TryLockError, TryLockResult};
    pub static TRY_LOCK_USED: AtomicBool = AtomicBool::new(false);
    pub static CS_POINTS: AtomicBool = AtomicBool::new(false);
    pub struct Mutex<T>(loom::sync::Mutex<T>, loom::sync::atomic::AtomicUsize);
    pub struct MutexGuard<'a, T> {
        m: &'a Mutex<T>,
        g: Option<loom::sync::MutexGuard<'a, T>>,
    }
    impl<T> Mutex<T> {
        pub fn new(t: T) -> Self {
            Mutex(loom::sync::Mutex::new(t), loom::sync::atomic::AtomicUsize::new(0))
        }
        pub fn lock(&self) -> LockResult<MutexGuard<'_, T>> {
            let r = match self.0.lock() {
                Ok(g) => Ok(MutexGuard { m: self, g: Some(g) }),
                Err(p) => Err(PoisonError::new(MutexGuard { m: self, g: Some(p.into_inner()) })),
            };
            if CS_POINTS.load(Ordering::SeqCst) {
                // first of two writes inside the critical section (see `try_lock`)
                self.1.fetch_add(1, loom::sync::atomic::Ordering::Relaxed);
            }
            r
        }
        pub fn try_lock(&self) -> TryLockResult<MutexGuard<'_, T>> {
            TRY_LOCK_USED.store(true, Ordering::SeqCst);
            // loom parks a thread whose *announced* next operation is on a mutex that another
            // thread then acquires -- also when that operation is a try_lock -- and it has no
            // scheduling point at a release. So that a try_lock can arrive while the lock is held,
            // it first reads a marker that every holder writes right after acquiring and right
            // before releasing: loom's partial-order reduction then orders this read between the
            // two writes in some execution, i.e. inside the critical section.
            self.1.load(loom::sync::atomic::Ordering::Relaxed);
            match self.0.try_lock() {
                Ok(g) => Ok(MutexGuard { m: self, g: Some(g) }),
                Err(TryLockError::WouldBlock) => {
                    TRY_LOCK_FAILED.fetch_add(1, Ordering::SeqCst);
                    Err(TryLockError::WouldBlock)
                }
                Err(TryLockError::Poisoned(p)) => Err(TryLockError::Poisoned(PoisonError::new(MutexGuard { m: self, g: Some(p.into_inner()) }))),
            }
        }
    }
    pub static TRY_LOCK_FAILED: std::sync::atomic::AtomicUsize = std::sync::atomic::AtomicUsize::new(0);
    impl<T> Deref for MutexGuard<'_, T> {
        type Target = T;
        fn deref(&self) -> &T {
            self.g.as_ref().expect("live")
        }
    }
    impl<T> DerefMut for MutexGuard<'_, T> {
        fn deref_mut(&mut self) -> &mut T {
            self.g.as_mut().expect("live")
        }
    }
    impl<T> Drop for MutexGuard<'_, T> {
        fn drop(&mut self) {
            if CS_POINTS.load(Ordering::SeqCst) && !std::thread::panicking() {
                self.m.1.fetch_add(1, loom::sync::atomic::Ordering::Relaxed);
            }
            drop(self.g.take());
        }
    }
}

#[path = "/repo/src/chunker.rs"]
mod chunker;
#[path = "/repo/src/gzip.rs"]
mod gzip;

use futures_core::Stream;

type Reader = chunker::Reader<Vec<u8>, String>;
type BodyWriter = gzip::BodyWriter<Vec<u8>, String>;

#[derive(Clone, Copy, Debug, PartialEq, Eq)]
enum Op {
    W(usize),
    F,
    A,
}

#[derive(Clone, Copy, Debug, PartialEq, Eq)]
enum Wakers {
    Same,      // one waker for the whole execution
    Fresh,     // a new waker for every poll
    Aba,       // wakers alternate A, B, A, B ...
}

#[derive(Clone, Copy, Debug, PartialEq, Eq)]
enum Consumer {
    Drain,               // poll to the terminal event, park on Pending
    Respurious,          // after every Pending, poll once more at once (spurious poll), then park
    DropAfter(usize),    // drop the body after that many frames (C11)
}

#[derive(Clone, Debug)]
struct Case {
    ops: Vec<Op>,
    gzip: bool,
    chunk: usize,
    wakers: Wakers,
    consumer: Consumer,
    preemption_bound: Option<usize>,
}

impl Case {
    fn to_json(&self) -> Value {
        json!({
            "ops": self.ops.iter().map(|o| match o { Op::W(n) => format!("W{n}"), Op::F => "F".into(), Op::A => "A".into() }).collect::<Vec<String>>(),
            "gzip": self.gzip, "chunk": self.chunk,
            "wakers": format!("{:?}", self.wakers), "consumer": format!("{:?}", self.consumer),
            "preemption_bound": self.preemption_bound,
        })
    }
    fn from_json(v: &Value) -> Case {
        let ops = v["ops"].as_array().unwrap().iter().map(|o| {
            let s = o.as_str().unwrap();
            match s { "F" => Op::F, "A" => Op::A, _ => Op::W(s[1..].parse().unwrap()) }
        }).collect();
        let wakers = match v["wakers"].as_str().unwrap() { "Same" => Wakers::Same, "Fresh" => Wakers::Fresh, _ => Wakers::Aba };
        let c = v["consumer"].as_str().unwrap();
        let consumer = if c == "Drain" { Consumer::Drain } else if c == "Respurious" { Consumer::Respurious } else {
            Consumer::DropAfter(c.trim_start_matches("DropAfter(").trim_end_matches(')').parse().unwrap())
        };
        Case { ops, gzip: v["gzip"].as_bool().unwrap(), chunk: v["chunk"].as_u64().unwrap() as usize, wakers, consumer,
               preemption_bound: v["preemption_bound"].as_u64().map(|b| b as usize) }
    }
}

struct NotifyWaker(loom::sync::Notify);
impl Wake for NotifyWaker {
    fn wake(self: StdArc<Self>) {
        self.0.notify();
    }
    fn wake_by_ref(self: &StdArc<Self>) {
        self.0.notify();
    }
}

fn payload(i: usize) -> u8 {
    (i as u8).wrapping_mul(37).wrapping_add(11)
}

const STACK_WORDS: usize = 1 << 18;
static ITER: AtomicU64 = AtomicU64::new(0);
static OUTCOMES: std::sync::Mutex<Option<std::collections::BTreeSet<String>>> = std::sync::Mutex::new(None);

/// One execution under loom. Panics (=> loom reports) on a property violation.
fn body_of(case: &Case) {
    ITER.fetch_add(1, Ordering::Relaxed);
    let (w, r): (chunker::Writer<Vec<u8>, String>, Reader) = chunker::Writer::with_chunk_size(case.chunk);
    let mut bw: BodyWriter = if case.gzip {
        BodyWriter::gzipped(w, flate2::Compression::new(1))
    } else {
        BodyWriter::raw(w)
    };
    let body_gone = loom::sync::Arc::new(loom::sync::atomic::AtomicBool::new(false));
    let ops = case.ops.clone();
    let gone2 = body_gone.clone();
    let is_gzip = case.gzip;
    let chunk = case.chunk;
    // ---- producer thread: returns (accepted bytes, aborted?, per-op results)
    let prod = loom::thread::Builder::new().stack_size(STACK_WORDS).spawn(move || {
        let mut accepted: Vec<u8> = Vec::new();
        let mut aborted = false;
        let mut failed = false;
        let mut pos = 0usize;
        let mut buffered = 0usize; // raw writer: bytes in the current chunk
        for op in ops {
            // Was the body already dropped before this operation started?
            let gone_before = gone2.load(loom::sync::atomic::Ordering::SeqCst);
            match op {
                Op::W(n) => {
                    let data: Vec<u8> = (pos..pos + n).map(payload).collect();
                    match bw.write(&data) {
                        Ok(k) => {
                            assert!(k <= n, "write reported more than it was given");
                            assert!(!(failed || aborted), "write Ok after an earlier failure/abort");
                            if !is_gzip {
                                assert!(k >= 1 || n == 0, "live raw writer accepted nothing");
                                let completes = buffered + k >= chunk;
                                assert!(!(gone_before && completes), "chunk-completing write Ok after the body was dropped");
                                buffered = (buffered + k) % chunk;
                            }
                            accepted.extend_from_slice(&data[..k]);
                            pos += k;
                        }
                        Err(_) => failed = true,
                    }
                }
                Op::F => match bw.flush() {
                    Ok(()) => {
                        assert!(!(failed || aborted), "flush Ok after an earlier failure/abort");
                        if !is_gzip {
                            assert!(!(gone_before && buffered > 0), "flush with buffered bytes Ok after the body was dropped");
                            buffered = 0;
                        }
                    }
                    Err(_) => failed = true,
                },
                Op::A => {
                    bw.abort("aborted".to_string());
                    aborted = true;
                }
            }
        }
        drop(bw);
        (accepted, aborted, failed)
    }).unwrap();

    // ---- consumer (this thread)
    let mut r = Box::pin(r);
    let mk = || StdArc::new(NotifyWaker(loom::sync::Notify::new()));
    let a = mk();
    let b = mk();
    let mut cur: StdArc<NotifyWaker> = a.clone();
    let mut npoll = 0usize;
    let mut delivered: Vec<u8> = Vec::new();
    let mut frames = 0usize;
    let mut terminal: Option<Result<(), String>> = None;
    let mut dropped_body = false;
    let mut respin = false;
    loop {
        if let Consumer::DropAfter(j) = case.consumer {
            if frames >= j {
                dropped_body = true;
                break;
            }
        }
        assert!(npoll < 200, "more than 200 polls: no termination");
        cur = match case.wakers {
            Wakers::Same => a.clone(),
            Wakers::Fresh => mk(),
            Wakers::Aba => if npoll % 2 == 0 { a.clone() } else { b.clone() },
        };
        npoll += 1;
        let waker = Waker::from(cur.clone());
        let mut cx = Context::from_waker(&waker);
        // C12 monitor, cheap: sampled before each poll
        let end_flag = r.is_end_stream();
        match r.as_mut().poll_next(&mut cx) {
            Poll::Ready(Some(Ok(d))) => {
                assert!(!d.is_empty(), "empty frame");
                assert!(!end_flag, "is_end_stream() was true before a data frame");
                delivered.extend_from_slice(&d);
                frames += 1;
                respin = false;
            }
            Poll::Ready(Some(Err(e))) => {
                assert!(!end_flag, "is_end_stream() was true before an error");
                terminal = Some(Err(e));
                break;
            }
            Poll::Ready(None) => {
                terminal = Some(Ok(()));
                break;
            }
            Poll::Pending => {
                assert!(!end_flag, "is_end_stream() was true before Pending");
                if case.consumer == Consumer::Respurious && !respin {
                    respin = true; // poll once more without having been woken
                    continue;
                }
                respin = false;
                cur.0.wait(); // a wake-up that never comes is a loom deadlock
            }
        }
    }
    if dropped_body {
        drop(r);
        body_gone.store(true, loom::sync::atomic::Ordering::SeqCst);
        let _ = prod.join().unwrap();
        record(format!("body-dropped-after-{frames}"));
        return;
    }
    // two more polls after the terminal event (C20)
    for _ in 0..2 {
        let waker = Waker::from(cur.clone());
        let mut cx = Context::from_waker(&waker);
        match r.as_mut().poll_next(&mut cx) {
            Poll::Ready(None) => {}
            Poll::Ready(Some(Err(_))) => {}
            Poll::Ready(Some(Ok(_))) => panic!("data after the terminal event"),
            Poll::Pending => panic!("Pending after the terminal event"),
        }
    }
    let (accepted, aborted, _failed) = prod.join().unwrap();
    match terminal.unwrap() {
        Ok(()) => {
            assert!(!aborted, "clean end although the writer aborted");
            if is_gzip {
                let mut dec = flate2::read::GzDecoder::new(&delivered[..]);
                let mut out = Vec::new();
                std::io::Read::read_to_end(&mut dec, &mut out).expect("gzip body decodes");
                assert_eq!(out, accepted, "clean end: decoded body != accepted bytes");
            } else {
                assert_eq!(delivered, accepted, "clean end: delivered != accepted");
            }
            record(format!("end frames={frames} polls={npoll}"));
        }
        Err(_) => {
            assert!(aborted, "error without abort");
            if !is_gzip {
                assert!(accepted.starts_with(&delivered), "delivered before the error is not a prefix");
            }
            record(format!("err frames={frames} polls={npoll}"));
        }
    }
}

fn record(s: String) {
    let mut g = OUTCOMES.lock().unwrap();
    g.get_or_insert_with(Default::default).insert(s);
}

fn run_case(case: &Case) -> Result<u64, String> {
    // constant within one case (loom replays a case's executions and needs them deterministic)
    verif_hooks::CS_POINTS.store(verif_hooks::TRY_LOCK_USED.load(Ordering::SeqCst), Ordering::SeqCst);
    let before = ITER.load(Ordering::Relaxed);
    let c = case.clone();
    let res = std::panic::catch_unwind(move || {
        let mut b = loom::model::Builder::new();
        b.preemption_bound = c.preemption_bound;
        b.max_branches = 100_000;
        let c2 = c.clone();
        // flate2's compressor state does not fit loom's default coroutine stack: run the case on
        // explicitly sized loom threads (the model's own thread only joins).
        b.check(move || {
            let c3 = c2.clone();
            loom::thread::Builder::new().stack_size(STACK_WORDS).spawn(move || body_of(&c3)).unwrap().join().unwrap();
        });
    });
    let n = ITER.load(Ordering::Relaxed) - before;
    match res {
        Ok(()) => Ok(n),
        Err(e) => {
            let msg = e.downcast_ref::<String>().cloned().or_else(|| e.downcast_ref::<&str>().map(|s| s.to_string())).unwrap_or_else(|| "panic".into());
            Err(msg)
        }
    }
}

fn programs(max_len: usize, alphabet: &[Op]) -> Vec<Vec<Op>> {
    let mut out = vec![vec![]];
    let mut cur: Vec<Vec<Op>> = vec![vec![]];
    for _ in 0..max_len {
        let mut next = Vec::new();
        for p in &cur {
            if p.last() == Some(&Op::A) {
                continue; // nothing interesting after an abort except failing calls: one op is enough
            }
            for &o in alphabet {
                let mut q = p.clone();
                q.push(o);
                next.push(q);
            }
        }
        out.extend(next.iter().cloned());
        cur = next;
    }
    out
}

fn cases(tier: &str) -> Vec<Case> {
    let thorough = tier == "thorough";
    let mut v = Vec::new();
    let raw_alpha = [Op::W(1), Op::W(2), Op::W(3), Op::F, Op::A];
    let raw_len = if thorough { 5 } else { 4 };
    // Iterative preemption bounding: short programs get the larger bound (thorough: no bound).
    let bound = |len: usize| -> Option<usize> {
        match (thorough, len) {
            (true, 0..=3) => None,
            (true, _) => Some(3),
            (false, 0..=2) => None,
            (false, 3) => Some(3),
            (false, _) => Some(2),
        }
    };
    for ops in programs(raw_len, &raw_alpha) {
        for wakers in [Wakers::Same, Wakers::Fresh, Wakers::Aba] {
            for consumer in [Consumer::Drain, Consumer::Respurious] {
                v.push(Case { ops: ops.clone(), gzip: false, chunk: 2, wakers, consumer, preemption_bound: bound(ops.len()) });
            }
        }
        if ops.len() <= 4 {
            for j in 0..=2 {
                v.push(Case { ops: ops.clone(), gzip: false, chunk: 2, wakers: Wakers::Fresh, consumer: Consumer::DropAfter(j), preemption_bound: bound(ops.len()) });
            }
        }
    }
    // gzip writer: each op is several critical sections; chunk 8 splits the 10-byte header.
    let gz_alpha = [Op::W(3), Op::F, Op::A];
    for ops in programs(if thorough { 3 } else { 2 }, &gz_alpha) {
        for (wakers, consumer) in [(Wakers::Fresh, Consumer::Drain), (Wakers::Aba, Consumer::Respurious), (Wakers::Fresh, Consumer::DropAfter(1))] {
            v.push(Case { ops: ops.clone(), gzip: true, chunk: 8, wakers, consumer, preemption_bound: Some(if thorough { 3 } else { 2 }) });
        }
    }
    // long and narrow: bursts of chunk-filling writes (queue depths that short programs never
    // reach), then nothing / abort / a partial write + flush; preemption bound 2 (thorough 3 for the short ones).
    for n in [9usize, 17, 33, 65, 70] {
        for tail in [vec![], vec![Op::A], vec![Op::W(1), Op::F]] {
            let mut ops = vec![Op::W(2); n];
            ops.extend(tail);
            for (wakers, consumer) in [(Wakers::Fresh, Consumer::Drain), (Wakers::Same, Consumer::Respurious)] {
                v.push(Case { ops: ops.clone(), gzip: false, chunk: 2, wakers, consumer, preemption_bound: Some(if thorough && n <= 17 { 3 } else { 2 }) });
            }
        }
    }
    // simplest first, so that a wall cap cuts the largest cases
    v.sort_by_key(|c| (c.ops.len(), c.gzip));
    v
}

/// One small case that goes through every operation once, so that a `try_lock` anywhere on the
/// main paths is noticed before the real cases start.
fn probe() {
    for ops in [vec![Op::W(3), Op::F], vec![Op::W(1), Op::A]] {
        for gzip in [false, true] {
            let c = Case { ops: ops.clone(), gzip, chunk: if gzip { 8 } else { 2 }, wakers: Wakers::Fresh, consumer: Consumer::Drain, preemption_bound: Some(1) };
            let _ = run_case(&c);
        }
    }
}

fn cases_for(tier: &str, prop: &str) -> Vec<Case> {
    cases(tier)
        .into_iter()
        .filter(|c| {
            let dropper = matches!(c.consumer, Consumer::DropAfter(_));
            if prop == "C11" { dropper || c.ops.contains(&Op::A) } else { !dropper }
        })
        .collect()
}

fn main() {
    let args: Vec<String> = std::env::args().collect();
    // loom prints the failing schedule itself; keep the default hook quiet for expected panics
    if std::env::var("LOOMCHK_LOUD").is_err() {
        std::panic::set_hook(Box::new(|_| {}));
    }
    match args.get(1).map(|s| s.as_str()) {
        Some("case") => {
            let c = Case::from_json(&serde_json::from_str(&args[2]).expect("json"));
            probe();
            match run_case(&c) {
                Ok(n) => {
                    println!("(try_lock in use: {}, failed try_locks seen: {})", verif_hooks::TRY_LOCK_USED.load(Ordering::SeqCst), verif_hooks::TRY_LOCK_FAILED.load(Ordering::SeqCst));
                    println!("case held on all {n} interleavings: {}", c.to_json());
                    std::process::exit(0)
                }
                Err(m) => {
                    println!("case VIOLATED: {m}\n  {}", c.to_json());
                    std::process::exit(1)
                }
            }
        }
        Some("shard") => {
            // loomchk shard <tier> <k> <n> <start> <deadline unix s>: child of `run`; one line per event.
            let tier = args[2].clone();
            let k: usize = args[3].parse().unwrap();
            let n: usize = args[4].parse().unwrap();
            let start: usize = args[5].parse().unwrap();
            let deadline: u64 = args[6].parse().unwrap();
            let all = cases_for(&tier, &args[7]);
            let out = std::io::stdout();
            probe();
            if verif_hooks::TRY_LOCK_USED.load(Ordering::SeqCst) {
                writeln!(out.lock(), "T try_lock in use").unwrap();
            }
            let mut seen_outcomes = 0usize;
            for (i, c) in all.iter().enumerate() {
                if i % n != k || i < start {
                    continue;
                }
                let now = std::time::SystemTime::now().duration_since(std::time::UNIX_EPOCH).unwrap().as_secs();
                if now >= deadline {
                    break;
                }
                writeln!(out.lock(), "S {i}").unwrap();
                out.lock().flush().unwrap();
                match run_case(c) {
                    Ok(it) => writeln!(out.lock(), "R {i} ok {it}").unwrap(),
                    Err(m) => writeln!(out.lock(), "R {i} viol {}", json!(m)).unwrap(),
                }
                let g = OUTCOMES.lock().unwrap();
                if let Some(set) = g.as_ref() {
                    if set.len() != seen_outcomes {
                        seen_outcomes = set.len();
                        writeln!(out.lock(), "O {}", json!(set.iter().collect::<Vec<_>>())).unwrap();
                    }
                }
                out.lock().flush().unwrap();
            }
            std::process::exit(0);
        }
        Some("run") => {
            // Parent: the cases are explored by child processes (one per worker). A violation that
            // makes loom abort the process (a panic while unwinding inside the subject) then costs
            // one child, not the run: the case in progress is recorded as a violation and the shard
            // is restarted behind it.
            let tier = args.get(2).cloned().unwrap_or("quick".into());
            let out = args.get(3).cloned().unwrap_or("/verif/target/loomchk.json".into());
            let t0 = std::time::Instant::now();
            let cap_s: u64 = std::env::var("LOOMCHK_WALL_CAP_S").ok().and_then(|s| s.parse().ok()).unwrap_or(if tier == "thorough" { 900 } else { 30 });
            let deadline = std::time::SystemTime::now().duration_since(std::time::UNIX_EPOCH).unwrap().as_secs() + cap_s;
            let prop = args.get(4).cloned().unwrap_or("C10".into());
            let all = cases_for(&tier, &prop);
            let total_cases = all.len();
            let nthreads: usize = std::env::var("VERIF_THREADS").ok().and_then(|s| s.parse().ok()).unwrap_or(16);
            let exe = std::env::current_exe().expect("own path");
            let results: std::sync::Mutex<Vec<(usize, Result<u64, String>)>> = std::sync::Mutex::new(Vec::new());
            let outcomes: std::sync::Mutex<std::collections::BTreeSet<String>> = Default::default();
            let unfinished: std::sync::Mutex<Vec<Option<usize>>> = Default::default();
            let probe_died: std::sync::Mutex<Option<String>> = Default::default();
            std::thread::scope(|s| {
                for k in 0..nthreads {
                    let (exe, tier, results, outcomes, prop, unfinished, probe_died) = (&exe, &tier, &results, &outcomes, &prop, &unfinished, &probe_died);
                    s.spawn(move || {
                        let mut start = 0usize;
                        loop {
                            // The child's output goes to files (no pipe to fill up) and the child is
                            // polled, so that a case in which the subject spins without reaching a
                            // scheduling point cannot hang the run: past the deadline plus a grace
                            // period the child is killed and its case counted as not completed.
                            let root = std::env::var("VERIF_SCRATCH").unwrap_or("/verif".into());
                            let _ = std::fs::create_dir_all(format!("{root}/target"));
                            let (fo, fe) = (format!("{root}/target/loomchk-shard-{prop}-{k}.out"), format!("{root}/target/loomchk-shard-{prop}-{k}.err"));
                            let mut child = std::process::Command::new(exe)
                                .args(["shard", tier, &k.to_string(), &nthreads.to_string(), &start.to_string(), &deadline.to_string(), prop])
                                .stdout(std::fs::File::create(&fo).expect("shard out"))
                                .stderr(std::fs::File::create(&fe).expect("shard err"))
                                .spawn()
                                .expect("spawn shard");
                            let grace = if tier == "thorough" { 600 } else { 45 };
                            let mut killed = false;
                            let status = loop {
                                match child.try_wait().expect("wait") {
                                    Some(st) => break st,
                                    None => {
                                        let now = std::time::SystemTime::now().duration_since(std::time::UNIX_EPOCH).unwrap().as_secs();
                                        if now > deadline + grace {
                                            let _ = child.kill();
                                            killed = true;
                                        }
                                        std::thread::sleep(std::time::Duration::from_millis(20));
                                    }
                                }
                            };
                            struct Out { stdout: Vec<u8>, stderr: Vec<u8>, status: std::process::ExitStatus }
                            let o = Out { stdout: std::fs::read(&fo).unwrap_or_default(), stderr: std::fs::read(&fe).unwrap_or_default(), status };
                            let _ = (std::fs::remove_file(&fo), std::fs::remove_file(&fe));
                            let text = String::from_utf8_lossy(&o.stdout);
                            let mut in_progress: Option<usize> = None;
                            for line in text.lines() {
                                let mut it = line.splitn(4, ' ');
                                match it.next() {
                                    Some("S") => in_progress = it.next().and_then(|x| x.parse().ok()),
                                    Some("R") => {
                                        let i: usize = it.next().unwrap().parse().unwrap();
                                        let r = match it.next() {
                                            Some("ok") => Ok(it.next().unwrap().parse().unwrap()),
                                            _ => Err(serde_json::from_str::<String>(it.next().unwrap_or("\"?\"")).unwrap_or_default()),
                                        };
                                        results.lock().unwrap().push((i, r));
                                        in_progress = None;
                                    }
                                    Some("O") => {
                                        if let Ok(v) = serde_json::from_str::<Vec<String>>(&line[2..]) {
                                            outcomes.lock().unwrap().extend(v);
                                        }
                                    }
                                    _ => {}
                                }
                            }
                            if o.status.success() {
                                break;
                            }
                            if killed {
                                unfinished.lock().unwrap().push(in_progress);
                                break;
                            }
                            let err = String::from_utf8_lossy(&o.stderr);
                            // the child died inside case `in_progress`, or inside the probe that precedes the cases
                            let Some(i) = in_progress else {
                                let tail: String = err.lines().rev().take(3).collect::<Vec<_>>().into_iter().rev().collect::<Vec<_>>().join(" | ");
                                *probe_died.lock().unwrap() = Some(format!("explorer process aborted inside the four probe cases that precede every shard ({}): {}", o.status, tail));
                                break;
                            };
                            let tail: String = err.lines().rev().take(3).collect::<Vec<_>>().into_iter().rev().collect::<Vec<_>>().join(" | ");
                            results.lock().unwrap().push((i, Err(format!("explorer process aborted inside this case ({}): {}", o.status, tail))));
                            start = i + 1;
                        }
                    });
                }
            });
            let res = results.into_inner().unwrap();
            let done = res.len();
            let iters: u64 = res.iter().filter_map(|(_, r)| r.as_ref().ok()).sum();
            if std::env::var("LOOMCHK_TOP").is_ok() {
                let mut big: Vec<(u64, String)> = res.iter().filter_map(|(i, r)| r.as_ref().ok().map(|n| (*n, all[*i].to_json().to_string()))).collect();
                big.sort();
                for (n, c) in big.iter().rev().take(25) {
                    println!("{n:>9} {c}");
                }
            }
            let mut viol: Vec<Value> = res.iter().filter_map(|(i, r)| r.as_ref().err().map(|m| json!({"case": all[*i].to_json(), "message": m}))).collect();
            if let Some(m) = probe_died.into_inner().unwrap() {
                let c = Case { ops: vec![Op::W(1), Op::A], gzip: true, chunk: 8, wakers: Wakers::Fresh, consumer: Consumer::Drain, preemption_bound: Some(1) };
                viol.push(json!({"case": c.to_json(), "message": m}));
            }
            viol.sort_by_key(|v| v["case"]["ops"].as_array().map(|a| a.len()).unwrap_or(0));
            let unfinished = unfinished.into_inner().unwrap();
            let outcomes = outcomes.into_inner().unwrap();
            let ev = json!({
                "tool": "loom 0.7.2 (DPOR; real /repo/src/chunker.rs + gzip.rs compiled in through the verif-hooks seam)",
                "tier": tier, "property": prop,
                "case_filter": if prop == "C11" { "programs containing an abort, and consumers that drop the body" } else { "consumers that drain the body (with and without spurious re-polls)" },
                "cases": total_cases, "cases_completed": done, "cases_skipped_by_wall_cap": total_cases - done,
                "shards_killed_past_the_deadline": unfinished.iter().map(|i| i.map(|i| all[i].to_json()).unwrap_or(json!("probe"))).collect::<Vec<_>>(),
                "interleavings_explored": iters,
                "distinct_outcomes": outcomes.len(),
                "violations": viol.len(),
                "first_violations": viol.iter().take(5).collect::<Vec<_>>(),
                "wall_s": t0.elapsed().as_secs_f64(),
                "bounds": "raw writer, chunk 2: every program of <= 4 (quick) / 5 (thorough) ops over {W1,W2,W3,F,A} followed by drop x wakers {same, fresh per poll, A/B alternating} x consumer {drain, one spurious re-poll after every Pending, body dropped after 0..2 frames}; preemption bound quick: none for <= 2 ops, 3 for 3 ops, 2 for 4 ops; thorough: none for <= 3 ops, 3 for 4..5 ops. Bursts of 9/17/33/65/70 chunk-filling writes then nothing / abort / partial write + flush at preemption bound 2 (thorough 3 up to 17). gzip writer (level 1, chunk 8): programs of <= 2 / 3 ops over {W3,F,A}, preemption bound 2 / 3",
                "oracle": "loom deadlock detection (a consumer waiting on its current waker's Notify that is never notified); delivered == accepted on a clean end (gzip: decoded); error iff aborted; delivered is a prefix before an error; is_end_stream() never true before a later frame, error or Pending; no data / Pending after the terminal event; < 200 polls; after the body was dropped: no Ok from a flush with buffered bytes or a chunk-completing write that started after the drop",
            });
            std::fs::write(&out, serde_json::to_string_pretty(&ev).unwrap()).expect("write");
            println!("loomchk [{tier}]: {done}/{total_cases} cases, {iters} interleavings, {} outcome classes, {} violation(s), {:.1} s", outcomes.len(), viol.len(), t0.elapsed().as_secs_f64());
            let root = std::env::var("VERIF_SCRATCH").unwrap_or("/verif".into());
            let dir = format!("{root}/replays/{prop}");
            for (n, v) in viol.iter().take(5).enumerate() {
                let _ = std::fs::create_dir_all(&dir);
                let path = format!("{dir}/loom-{tier}-{n:03}.json");
                let doc = json!({"property": prop, "engine": "loomchk", "key": "loom", "message": v["message"], "case": v["case"]});
                let _ = std::fs::write(&path, serde_json::to_string_pretty(&doc).unwrap());
                println!("# loom: {} :: {}", v["message"], v["case"]);
                println!("VIOLATION property={prop} replay={path}");
            }
            std::process::exit(if viol.is_empty() { 0 } else { 1 });
        }
        _ => {
            eprintln!("usage: loomchk run <quick|thorough> <out.json> <C10|C11> | loomchk case '<json>'");
            std::process::exit(2);
        }
    }
}
