#!/usr/bin/env python3
"""Rewrites the table between the SEEDED-TABLE markers in DESIGN.md from /verif/seeded/*/meta.json."""
import glob, json, re
rows = []
for f in sorted(glob.glob('/verif/seeded/*/meta.json')):
    m = json.load(open(f))
    det = m["detected_by"]
    own = det.get(m["property"], {})
    others = [c for c, v in det.items() if c != m["property"] and v["detected"]]
    missed = [c for c, v in det.items() if c != m["property"] and not v["detected"]]
    keys = ", ".join(sorted(set(own.get("violation_keys", [])))[:3])
    rows.append(f"| {m['seed']} | {m['needs_to_manifest']} | {'**yes**' if own.get('detected') else '**NO**'} ({keys}) | {', '.join(others) or '-'} | {', '.join(missed) or '-'} |")
table = "| seed | what it needs in order to manifest | caught by its own property's quick check (violation keys) | also caught by | run but silent (other properties) |\n|---|---|---|---|---|\n" + "\n".join(rows) + "\n"
s = open('/verif/DESIGN.md').read()
s2 = re.sub(r"(<!-- SEEDED-TABLE-BEGIN -->\n).*?(<!-- SEEDED-TABLE-END -->)", lambda mm: mm.group(1) + table + mm.group(2), s, flags=re.S)
open('/verif/DESIGN.md', 'w').write(s2)
print(len(rows), "rows")
