#!/bin/bash
# Confirms a seeded change independently, in a scratch worktree outside /repo and /verif:
#   (1) the crate builds and the existing suite passes WITH the change,
#   (2) the demonstration fails WITH the change,
#   (3) the demonstration passes WITHOUT it.
#   tools/confirm_seed.sh <seed dir containing patch.diff and demo.rs> [cargo test features]
set -u
SEED="$1"; FEAT="${2:-}"
WT=/tmp/wt/confirm
if [ ! -d "$WT" ]; then git -C /repo worktree add --detach "$WT" HEAD >/dev/null 2>&1 || exit 2; cp -r /repo/target "$WT/target"; fi
cd "$WT" || exit 2
git checkout -q --detach "$(git -C /repo rev-parse HEAD)" 2>/dev/null
git checkout -- . ; rm -f tests/seed_demo.rs
cp "$SEED/demo.rs" tests/seed_demo.rs
F=""; [ -n "$FEAT" ] && F="--features $FEAT"
echo "--- demo WITHOUT the change"
timeout 600 cargo test --offline $F --test seed_demo 2>&1 | grep -E "^test result|^error(\[|:)" | head -5
git apply "$SEED/patch.diff" || { echo "PATCH DOES NOT APPLY"; exit 2; }
echo "--- existing suite WITH the change"
mv tests/seed_demo.rs /tmp/seed_demo.rs.hold
timeout 900 cargo test --offline $F 2>&1 | grep -E "^test result|FAILED|error(\[|:)|Terminated" | head -8
mv /tmp/seed_demo.rs.hold tests/seed_demo.rs
echo "--- demo WITH the change"
timeout 600 cargo test --offline $F --test seed_demo 2>&1 | grep -E "^test result|^error(\[|:)|Terminated" | head -5
git checkout -- . ; rm -f tests/seed_demo.rs
