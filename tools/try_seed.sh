#!/bin/bash
# Applies a seeded change to /repo, runs the given checks (quick tier unless TIER is set), and
# ALWAYS restores /repo afterwards.
#   tools/try_seed.sh <patch.diff> <property id>...
set -u
PATCH="$1"; shift
TIER="${TIER:-quick}"
cd /repo || exit 2
if [ -n "$(git status --porcelain)" ]; then echo "/repo is not clean" >&2; exit 2; fi
git apply "$PATCH" || { echo "patch does not apply" >&2; exit 2; }
trap 'git -C /repo checkout -- . ; git -C /repo clean -fdq -- src tests' EXIT
cd /verif
for P in "$@"; do
  OUT=$(./check "$P" --tier "$TIER" 2>&1); RC=$?
  echo "== $P rc=$RC $(echo "$OUT" | grep -c '^VIOLATION') violation line(s)"
  echo "$OUT" | grep -E '^# ' | head -6
  echo "$OUT" | tail -1
done
