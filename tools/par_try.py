#!/usr/bin/env python3
"""Runs quick checks against many changed copies of the repository side by side.

Each worker owns a scratch git worktree of /repo (HEAD), a copy of /verif/harness and /verif/loomchk
whose path dependencies point at that worktree, its own cargo target directory and its own scratch
directory for evidence / replays. /repo itself is never touched, so this can run while other work
goes on. It drives the SAME ./check script as the registered commands (through the VERIF_HARNESS /
VERIF_LOOMDIR / VERIF_TARGET / VERIF_SCRATCH variables that only this tool sets).

  tools/par_try.py seeds   [-j N] [ids...]    every kept seed must be caught by its property's check
  tools/par_try.py benign  [-j N] [files...]  every benign change must leave all 20 checks silent
  tools/par_try.py clean

Results: $PT/seeds.jsonl, $PT/benign.jsonl (default PT=/var/tmp/partry).
"""
import glob, json, os, queue, re, shutil, signal, subprocess, sys, threading, time

PT = os.environ.get("PT", "/var/tmp/partry")
ALL = [f"C{i:02d}" for i in range(1, 21)]


def sh(cmd, timeout=None, env=None, cwd=None):
    e = dict(os.environ)
    e["CARGO_NET_OFFLINE"] = "true"
    if env:
        e.update(env)
    p = subprocess.Popen(cmd, shell=True, stdout=subprocess.PIPE, stderr=subprocess.STDOUT, text=True, env=e, cwd=cwd, start_new_session=True)
    try:
        out, _ = p.communicate(timeout=timeout)
        return p.returncode, out
    except subprocess.TimeoutExpired:
        try:
            os.killpg(p.pid, signal.SIGKILL)
        except ProcessLookupError:
            pass
        out, _ = p.communicate()
        return 124, out or ""


def setup(k):
    w = f"{PT}/w{k}"
    os.makedirs(w, exist_ok=True)
    head = sh("git -C /repo rev-parse HEAD")[1].strip()
    if not os.path.isdir(f"{w}/repo"):
        rc, o = sh(f"git -C /repo worktree add --detach {w}/repo HEAD")
        assert rc == 0, o
    sh(f"git checkout -q --detach {head} && git checkout -- . && git clean -fdq -- src tests", cwd=f"{w}/repo")
    # checker crates: always refreshed from /verif
    for crate in ("harness", "loomchk"):
        os.makedirs(f"{w}/{crate}", exist_ok=True)
        sh(f"rsync -a --delete --exclude .cargo /verif/{crate}/ {w}/{crate}/")
        os.makedirs(f"{w}/{crate}/.cargo", exist_ok=True)
    ct = open(f"{w}/harness/Cargo.toml").read().replace('path = "/repo"', f'path = "{w}/repo"')
    open(f"{w}/harness/Cargo.toml", "w").write(ct)
    open(f"{w}/harness/.cargo/config.toml", "w").write(f'[net]\noffline = true\n[build]\ntarget-dir = "{w}/target"\n')
    open(f"{w}/loomchk/.cargo/config.toml", "w").write(f'[net]\noffline = true\n[build]\ntarget-dir = "{w}/target/loomchk"\n')
    m = open(f"{w}/loomchk/src/main.rs").read().replace('#[path = "/repo/src/', f'#[path = "{w}/repo/src/')
    open(f"{w}/loomchk/src/main.rs", "w").write(m)
    if not os.path.isdir(f"{w}/target"):
        sh(f"mkdir -p {w}/target && cp -r /verif/target/release {w}/target/release && mkdir -p {w}/target/loomchk && cp -r /verif/target/loomchk/release {w}/target/loomchk/release")
    return w


def env_of(w):
    return {"VERIF_HARNESS": f"{w}/harness", "VERIF_LOOMDIR": f"{w}/loomchk", "VERIF_TARGET": f"{w}/target", "VERIF_SCRATCH": w,
            "VERIF_EVIDENCE_DIR": f"{w}/evidence", "VERIF_THREADS": os.environ.get("PT_THREADS", "4"), "VERIF_WALL_CAP_S": os.environ.get("PT_WALL_CAP_S", "120")}


def run_checks(w, patch, checks, stop_at_first):
    repo = f"{w}/repo"
    sh("git checkout -- . && git clean -fdq -- src tests", cwd=repo)
    rc, o = sh(f"git apply {patch}", cwd=repo)
    if rc != 0:
        return {"status": "patch-does-not-apply", "log": o[-500:]}
    res = {}
    try:
        for c in checks:
            rc, o = sh(f"/verif/check {c} --tier quick", env=env_of(w), timeout=1500, cwd="/verif")
            keys = sorted({l[2:].split(":")[0] for l in o.splitlines() if l.startswith("# ")})
            res[c] = {"rc": rc, "keys": keys[:6]}
            if rc not in (0, 1):
                res[c]["log"] = o[-800:]
            if stop_at_first and rc == 1:
                break
    finally:
        sh("git checkout -- . && git clean -fdq -- src tests", cwd=repo)
    return {"status": "ran", "checks": res}


def pool(items, n, fn, outname):
    q = queue.Queue()
    for it in items:
        q.put(it)
    lock = threading.Lock()
    out = open(f"{PT}/{outname}", "a")

    def run(k):
        w = setup(k)
        while True:
            try:
                it = q.get_nowait()
            except queue.Empty:
                return
            t0 = time.time()
            rec = fn(w, it)
            rec["secs"] = round(time.time() - t0, 1)
            with lock:
                out.write(json.dumps(rec) + "\n")
                out.flush()
                print(rec.get("id"), rec.get("verdict"), rec["secs"], flush=True)

    ths = [threading.Thread(target=run, args=(k,)) for k in range(n)]
    for t in ths:
        t.start()
    for t in ths:
        t.join()


def main():
    os.makedirs(PT, exist_ok=True)
    args = sys.argv[1:]
    n = 4
    if "-j" in args:
        i = args.index("-j")
        n = int(args[i + 1])
        del args[i:i + 2]
    cmd, rest = args[0], args[1:]
    if cmd == "seeds":
        ids = rest or sorted(os.path.basename(os.path.dirname(p)) for p in glob.glob("/verif/seeded/*/meta.json"))

        def one(w, sid):
            meta = json.load(open(f"/verif/seeded/{sid}/meta.json"))
            prop = meta["property"]
            r = run_checks(w, f"/verif/seeded/{sid}/patch.diff", [prop], True)
            rc = r.get("checks", {}).get(prop, {}).get("rc")
            return {"id": sid, "property": prop, "verdict": "caught" if rc == 1 else f"MISSED rc={rc} {r.get('status')}", **r}
        open(f"{PT}/seeds.jsonl", "w").close()
        pool(ids, n, one, "seeds.jsonl")
        recs = [json.loads(l) for l in open(f"{PT}/seeds.jsonl")]
        bad = [r for r in recs if r["verdict"] != "caught"]
        print(f"{len(recs) - len(bad)}/{len(recs)} seeds caught by the quick check of their property")
        for r in bad:
            print("  ", r["id"], r["verdict"])
        sys.exit(1 if bad else 0)
    elif cmd == "benign":
        files = rest or sorted(glob.glob("/verif/benign/*.diff"))

        def one(w, f):
            r = run_checks(w, f, os.environ.get("PT_CHECKS", "").split() or ALL, False)
            noisy = {c: v for c, v in r.get("checks", {}).items() if v["rc"] != 0}
            return {"id": os.path.basename(f), "verdict": "silent" if r["status"] == "ran" and not noisy else f"NOISY {sorted(noisy)} {r.get('status')}", "noisy": noisy}
        open(f"{PT}/benign.jsonl", "w").close()
        pool(files, n, one, "benign.jsonl")
        recs = [json.loads(l) for l in open(f"{PT}/benign.jsonl")]
        bad = [r for r in recs if r["verdict"] != "silent"]
        print(f"{len(recs) - len(bad)}/{len(recs)} benign changes left all 20 quick checks silent")
        for r in bad:
            print("  ", r["id"], r["verdict"], json.dumps(r["noisy"])[:600])
        sys.exit(1 if bad else 0)
    elif cmd == "tier":
        # tools/par_try.py tier quick|thorough [ids...]: the unchanged HEAD in a scratch worktree (worker 9),
        # so that it can run while /repo has a seed applied; own thread count, the tier's own wall caps
        tier, ids = rest[0], rest[1:] or ALL
        w = setup(int(os.environ.get("PT_WORKER", "9")))
        env = env_of(w)
        env["VERIF_THREADS"] = os.environ.get("PT_THREADS", "8")
        del env["VERIF_WALL_CAP_S"]
        bad = 0
        for c in ids:
            t0 = time.time()
            rc, o = sh(f"/verif/check {c} --tier {tier}", env=env, timeout=4 * 3600, cwd="/verif")
            last = o.strip().splitlines()[-1][:220] if o.strip() else ""
            print(c, f"rc={rc}", f"{time.time() - t0:.0f}s", sum(l.startswith("VIOLATION") for l in o.splitlines()), last, flush=True)
            if rc != 0:
                bad += 1
                open(f"{PT}/tier-{tier}-{c}.log", "w").write(o)
        sys.exit(1 if bad else 0)
    elif cmd == "clean":
        for d in sorted(os.listdir(PT)):
            if re.match(r"w\d+$", d):
                sh(f"git -C /repo worktree remove --force {PT}/{d}/repo")
                shutil.rmtree(f"{PT}/{d}", ignore_errors=True)
        sh("git -C /repo worktree prune")


if __name__ == "__main__":
    main()
