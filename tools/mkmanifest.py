#!/usr/bin/env python3
"""Regenerates /verif/MANIFEST.json from the table below (single source of truth)."""
import json, subprocess

ALL = ["C%02d" % i for i in range(1, 21)]

# id -> (engine, technique, level text, level note, design ref)
CHECKS = {
 "C01": ("serve_mc", "exhaustive enumeration of requests x entities x entity-stream chunkings against the real serve(), reference-model oracle",
         "Bounded-exhaustive: the full categorical product of method x Range class x If-Range x If-Match x If-None-Match x If-(Un)Modified-Since x 12..24 entity lengths (0 .. 2^64-1) x every contract-honouring chunking (<= 3..4 chunks, empty chunks and Pending interleaved) is executed on the real code; every execution compares Content-Length, the initial exact size hint and the bytes delivered (running total at every poll).",
         "Verdict is 'no violation inside the stated alphabet'; lengths are a boundary alphabet, not all of u64. Entity honours its contract (C07 covers the rest).", "3/C01"),
 "C02": ("serve_mc", "exhaustive enumeration of single-range requests x chunkings; self-describing oracle (own Content-Range parsed back, descriptor-exact byte comparison, recorded get_range arguments)",
         "Every single byte-range-spec over positions 0..L+2 for six small L and over a boundary position set up to 2^64-1 for large L, times every chunking, is served by the real code; each delivered byte is compared with position-dependent entity content (virtual buffers make 2^64-1-byte ranges checkable).",
         "Positions for large L are a boundary alphabet. Harness entity content function trusted.", "3/C02"),
 "C03": ("serve_mc", "exhaustive enumeration of the byte-range-set language (1..3 specs, 3 forms, small and boundary positions, separators) against a u128 reference resolver returning the set of admissible answers",
         "All 1- and 2-spec sets over 0..L+2 for L in {1,2,3,10}; 1..3-spec sets over {0,1,L-1,L,L+1,2^32,2^63,2^64-2,2^64-1,2^64} for large L; threshold-straddling multi-range sets; out-of-grammar values. The oracle admits exactly what the statement admits (multipart-or-200 zone, inverted spec and >64-bit numbers either way). Thorough tier repeats the sweep on a build without overflow checks.",
         "Grey-zone list syntax (OWS before commas, empty elements, other-case unit) is not asserted either way.", "3/C03"),
 "C04": ("serve_mc", "exhaustive enumeration of the categorical product of validators and four conditional headers against a straight-line RFC 7232 s.6 evaluator",
         "entity etag {absent,strong,weak,strong with ', '} x mtime {absent, whole second, +1ms, +999999999ns} x If-Match x If-None-Match (absent, *, all lists of 1..k tags over 5 tags, 3 separators) x If-Modified-Since x If-Unmodified-Since {absent, LM-1s, LM, LM+1s} x GET/HEAD, all executed on the real serve(); plus a linear date family: each date header in RFC 850 and asctime spelling for LM-1/LM/LM+1, at the epoch, in 2100, in 9999 and 400 days after the run (i.e. beyond the server's clock); plus two-request histories on one thread (serve() must not keep state between calls).",
         "Only well-formed validators are asserted (lenient list syntax / malformed dates: no claim). k = (3,1)/(1,3) quick, (4,2)/(2,4) thorough.", "3/C04"),
 "C05": ("serve_mc", "exhaustive enumeration of If-Range values (near-miss validators, dates in three formats, all short byte strings over the parser's branch characters) x Range shapes x entity validators",
         "206 (or 416) is admitted only if If-Range is absent or byte-identical to a strong entity ETag, and then must be exactly what C03 prescribes; every other value must yield the complete 200 without Content-Range.",
         "Arbitrary-bytes part is exhaustive up to length 4 (quick) / 6 (thorough) over a 7-symbol alphabet. Entity tags include every kind of etagc a parser can trip over (comma, semicolon, '*', 'W/' inside the quotes, backslash, empty, obs-text, 300 bytes).", "3/C05"),
 "C06": ("serve_mc", "exhaustive enumeration of 2..8-range sets x lengths x entity header sets x If-Range x per-part chunkings; independent multipart parser as oracle",
         "Every multipart body produced is parsed back by an independent verifier (boundary from Content-Type, per-part delimiter/Content-Range/entity headers/blank line/descriptor-exact bytes, closing delimiter) and its parsed length compared with Content-Length; covers decimal-width changes, 200-byte entity headers, L up to 2^64-1.",
         "4..8-range tuples are a stated subset (rotations and stride-2 walks of the base list).", "3/C06"),
 "C07": ("serve_mc", "exhaustive fault enumeration: every entity-stream script with one fault (early end at every offset, Err at every chunk index, extra byte, extra chunk, endless stream) x response shapes x fault position",
         "Each faulty script is played to the real body; the first terminal event must be an error (never a clean end) for short/failing streams, the delivered bytes must be a correct prefix (multipart: parsed prefix, no closing delimiter), and nothing beyond the announced length is ever delivered.",
         "Range lengths {1,2,5} (thorough adds 100 and 70000); <= 4..5 events per stream.", "3/C07"),
 "C08": ("stream_mc", "exhaustive enumeration of all operation histories (write/write_all/flush/flush-then-drain/poll/poll-until-pending/drop) up to a depth on the real BodyWriter + Body, reference model = byte vector and cursors checked after every operation",
         "Every history up to depth 4..6 (by chunk size) over the full write-size alphabet 0..3c for c in {1,2,3,4} and boundary sizes for {7,4096,65536} is executed from the initial state; prefix property, non-empty frames, at-least-one-byte acceptance, flush availability (Pending only after everything flushed was delivered) and the clean end are checked at every step. States at depth D-1 vs D are reported to show saturation.",
         "Polls present one waker throughout and, in a second set of configurations, a different waker at every poll; `flush-then-poll-until-pending` is one operation so that availability is checked right after every flush. Product is depth-bounded (4..6); beyond that only the 'long and narrow' family (a 1-3 operation unit repeated up to 100 / 1000 times, realistic chunk sizes) reaches the 7th+ operation and hundreds of queued chunks. No random histories are used as evidence.", "3/C08"),
 "C09": ("stream_mc", "exhaustive enumeration of write/flush/poll/drop histories x gzip levels 1..9 x chunk sizes x payload classes; independent gzip member parser + CRC-32 + streaming inflater as oracle",
         "After every successful flush the streaming inflater, fed only the frames delivered so far, must reproduce everything written before it; after writer drop the body must be exactly one gzip member (header, final block, CRC-32, ISIZE, no trailing bytes) of the written bytes; chunk size 1 puts every header/trailer byte in its own frame.",
         "Depth 3 (quick) / 4 (thorough) for the product; plus large incompressible writes (40 000 / 200 000 bytes), a flush 'ramp' (every total up to 140 000 / 280 000 bytes in 500-byte writes, every level) and long repeated units. miniz_oxide::inflate is in the trusted base (thorough tier cross-checks distinct bodies with C zlib via python).", "3/C09"),
 "C11": ("stream_mc+sched_mc", "exhaustive enumeration of histories with abort / body-drop at every position (raw and gzip writers), byte-counting allocator for queue release",
         "After abort: next terminal event is the abort error (never clean end, never Pending), delivered bytes a prefix, is_end_stream false until delivered, later write/flush fail. After body drop: flush with unflushed bytes and chunk-completing writes fail, everything after the first error fails, the writer is told within write(c),flush,write,flush, and the queued chunks are released (live heap measured).",
         "Sequential part depth 3..5; the concurrent part is C10's scheduler exploration (programs containing abort and consumer variants that drop the body) and the loom cross-check restricted to programs with an abort and consumers that drop the body.", "3/C11"),
 "C16": ("neg_mc", "exhaustive enumeration of the Accept-Encoding list language (0..3/4 distinct codings x 11 weights x 4 whitespace styles) against an independent RFC 7231 5.3.4 evaluator; all short byte strings for the no-panic clause",
         "should_gzip is compared with the evaluator on every enumerated grammatical value (identity default = least-preferred acceptable, qualities in thousandths); repeated codings, every string of <= 5/7 symbols over 14 symbols (incl. 0xFF and two well-formed multi-byte UTF-8 characters) and every weight string of length <= 6 over {0,1,9,.} must not panic.",
         "Upper-case codings / 'Q=' / duplicate codings: no claim (statement silent) -- except that any value, grammatical or not, that contains neither 'gzip' (any case) nor '*' must give false. All 1000 pairs of adjacent weights (w-1, w thousandths) between gzip and identity / '*' in six list shapes. Every ordered pair of 30 neighbouring values as two calls on one thread (the second answer must equal the answer on a fresh thread). Also lists of up to 42 distinct codings with the deciding elements first and last.", "3/C16"),
 "C17": ("neg_mc+stream_mc", "exhaustive enumeration of Accept-Encoding values x gzip level 0..9 x chunk sizes x methods x request representation, real streaming_body + independent decoder",
         "Vary names accept-encoding; Content-Encoding: gzip iff evaluator prefers gzip and level > 0; body sniffed: says gzip <=> exactly one gzip member of the payload, else payload verbatim; Request and Parts representations agree; HEAD same headers and no writer.",
         "Accept-Encoding values: all C16 lists of <= 2 elements + 20 hand-picked; writer histories: write_all(n), flush, drop for n in {0, 300}; drop only; flush, drop; write_all(300), drop; short/long/short writes without a flush; 40 small writes, flush, one more byte. Every ordered pair of 20 Accept-Encoding values (letter case, weight spelling, one character apart) as two requests on one thread: judged as usual and compared with the answer on a fresh thread.", "3/C17"),
 "C10": ("sched_mc", "stateless exhaustive exploration of thread interleavings of the real code under a controlled scheduler (decision points: every acquisition of the instrumented mutex, wake(), park, wait, environment choices), depth-first over choice vectors with iterative preemption bounding; cross-checked by a second, independent explorer (loom, DPOR) over the same source files; sequential histories with a wake-up oracle",
         "Every schedule of {producer program} || {consumer loop} for all programs up to length 3 (quick) / 4 (thorough) with unbounded preemptions, longer programs and environment choices (fresh waker per poll, spurious re-polls) at preemption bound 1..2, abort programs, gzip writer; deadlock (= lost wake-up) detection, delivered == accepted on clean end, abort => error, bounded polls after the writer is gone. Each violating schedule is replayed and must reproduce. A family that also preempts inside critical sections (the only way a try_lock can find the mutex held). loom (loomchk/) explores every program of <= 4/5 operations over {W1,W2,W3,F,A} x three waker disciplines x {drain, spurious re-poll} plus bursts of up to 70 queued chunks and gzip programs on the same chunker.rs/gzip.rs compiled in through the hook seam; every single-threaded history up to depth 4/5 is checked for 'the waker of the last Pending poll is woken as soon as data, the end or an abort becomes observable'.",
         "Scheduling granularity = lock acquisition / wake / park (complete for safe code over one Mutex, no atomics); preemption bounds, budgets, caps and program lengths per family are listed in the evidence (thorough: all programs <= 4 ops unbounded, 5 ops at bound 3, 6 ops at bound 2, environment choices at bound 2-3, gzip writer at bound 3 -- the gzip family can hit its per-program cap, in which case `exhaustive` is false); no partial-order reduction.", "2.4, 3/C10"),
 "C18": ("fs_mc", "exhaustive enumeration of file sizes x ranges x truncation/growth fault points (before every poll) on real files, std::fs as reference; exhaustive enumeration (preemption-bounded DFS over choice vectors) of the interleavings of the read-side system calls of threads that drain streams of one entity (read/pread/lseek interposed in the checker executable, one controlled thread runs at a time); short reads and errno answers injected at every read call in turn",
         "Every range with start/end on, just before and just after the 64 KiB read boundaries, for seven file sizes, read through get_range and through serve(); truncation to every interesting length before every poll: error within a bounded number of polls, never a clean short end, delivered bytes unchanged; metadata and ETag stability / sensitivity (append, mtime +1s, +1ns, a lattice of mtime deltas around a recent time and mirrored around the epoch, replaced inode; pre-epoch, near-future and far-future mtimes with two instances compared); non-regular files refused.",
         "Also: truncation before the stream is requested on an instance that already served one, growth after construction, two live streams of one instance, new_with_metadata, streams polled inside a multi-thread runtime, joint length / mtime changes around the recent past and the epoch. Runs on the sandbox file system (ns-granular mtimes are probed and the +1ns case is counted as skipped if the fs truncates them). Ranges of >= 2^32 bytes are read from a sparse file (first chunks in quick, to the end in thorough).", "3/C18"),
 "C19": ("fs_mc", "exhaustive enumeration of path strings (1..3/4 segments over 9 segment kinds, slashes, NUL at every position) x Accept-Encoding x auto_gzip against a fixture tree, std::fs + independent negotiation evaluator as reference",
         "Lexical rule decides rejection (InvalidInput); accepted paths must open exactly the inode std::fs opens for base/path (or its .gz sibling when substitution applies), with the same error kind on failure, always inside the base directory; encoding()/add_encoding_headers consistent.",
         "A changing tree under one long-lived FsDir (eleven changes: sibling appears / disappears / is replaced / becomes a directory, plain file replaced / removed, directory becomes a file): after each change every lookup must equal what an instance opened now gives. get() is also awaited under block_on, on a worker thread, inside a LocalSet and in spawn_local; add_encoding_headers also on maps that already hold Vary entries; other request headers (Range ...) in the map given to get() must not matter. No symlinks in the fixture (documented non-goal of the crate); the empty path is excluded from the equality oracle only. Includes names of 250..256 bytes (NAME_MAX boundary for the .gz sibling), a 250+-byte path of short segments, request paths that themselves end in .gz (with and without a .gz.gz sibling), empty files, .gz siblings older / newer / as old as the plain file, names with space, backslash, percent escape and non-ASCII letters.", "3/C19"),
 "C12": ("serve_mc+stream_mc", "per-step monitor (size_hint, is_end_stream sampled before every poll) attached to every execution of the C01, C06, C08, C09, C11 explorations, plus all Body::from conversions",
         "Retrospective check on every sample of every explored body: lower <= bytes still delivered <= upper on clean ends, exact hints for serve/Body::from bodies, is_end_stream never followed by bytes or an error, streaming body never at end while chunks or an abort are pending.",
         "Same bounds as the explorations it rides on. A frame (even an empty one) delivered after an end-of-stream claim counts as a lie.", "3/C12"),
 "C13": ("serve_mc", "exhaustive enumeration of all byte strings up to a length bound over the parsers' branch characters in each of six request headers, boundary numbers, repeated lines, header pairs, 11 methods, 12 entities",
         "No panic in serve() or while draining (+3 polls), status within the documented set, 405 + Allow + no entity read for other methods. Both with overflow checks/debug assertions on and (thorough) off.",
         "'Arbitrary bytes' is bounded-exhaustive over a 16-symbol alphabet incl. 0xFF and two well-formed multi-byte UTF-8 characters (<= 4 symbols quick, <= 6 thorough, after each of 4 prefixes), not all strings.", "3/C13"),
 "C14": ("serve_mc", "exhaustive enumeration of two-request histories (first response's served validators echoed in every subset) x validators x mtimes x header sets",
         "Second requests are built from the bytes the real first response carried; outcome derived from the echoed subset alone; first responses checked for Accept-Ranges, ETag, Date/Last-Modified relation, entity header presence/absence per status.",
         "The wall clock is an input in the controlled-clock family (the checker executable defines clock_gettime; every relation of clock, modification time and the clock of the echoing request around second boundaries, 830 histories); elsewhere past mtimes are decades old. The two date echoes for a future mtime are known findings. Entity tags with comma / semicolon / '*' / backslash / obs-text / empty / 300 bytes; entity header sets incl. repeated field names and Latin-1 values.", "3/C14"),
 "C15": ("serve_mc+stream_mc", "every request of the C01-C06 spaces executed twice (GET, HEAD) and compared; streaming_body negotiated configurations with HEAD",
         "Same status, identical header multiset apart from Date/Last-Modified (within 2 s), empty ended body with exact hint 0 for 2xx/3xx/416, zero get_range calls for HEAD.",
         "Same alphabets as C01/C03/C06.", "3/C15"),
 "C20": ("serve_mc+stream_mc", "every execution of the fault, multipart, single-range (and streaming) explorations continued for 4 more polls after its first terminal event",
         "No panic (debug assertions on) and no further bytes after any terminal event: clean end, entity error, too-short, too-long, abort; fused entity streams (the statement's premise).",
         "k = 4 extra polls.", "3/C20"),
}

# Families every check of an engine runs BEFORE its own sweeps (so that a wall cap never cuts them),
# and what happens when the subject does not return or kills the process (DESIGN 12.8, 12.13, 12.14).
COMMON = {
 "serve_mc": " Run first in every serve_mc check: request-pair histories on fresh OS threads (serve() must be a function of its inputs: a result that depends on earlier calls, or that does not reproduce, is a violation), the 'zoo' (every rich alphabet -- entity tags, header sets incl. add_headers that read or replace entries, dates, mtimes, ranges, chunkings -- crossed once), bodies of 100..3000 ready frames drained inside a tokio task and by hand, and entity streams that are not fused (they panic when polled after their end).",
 "stream_mc": " Run first in every stream_mc check: the streaming zoo (25 history shapes x 13 chunk sizes x identity/gzip levels x one waker / a different waker per poll (rotating between wakers on fresh Arcs and wakers that share one data pointer and differ only in their vtable) / every poll on a fresh OS thread x payload classes; operations include write_vectored and write!), and two-body histories (an aborted or dropped body with unread chunks, then a fresh body of the same chunk size: the second must not depend on the first).",
}
ABORT = " A call into the subject that has not returned after 60 s (watchdog), or that aborts the process by panicking while a panic unwinds (SIGABRT handler), is reported as a violation of this property with a replay file; an abort caused by a refused allocation reruns the explorer without entities above 16 MiB (evidence field fallback_mode)."

def main():
    head = subprocess.run(["git", "-C", "/repo", "log", "--format=%h %s"], capture_output=True, text=True).stdout.splitlines()
    hooks = [l.split()[0] for l in head if "verif-hooks" in l]
    checks = []
    for pid in ALL:
        if pid not in CHECKS:
            continue
        eng, tech, text, note, ref = CHECKS[pid]
        for e in eng.split("+"):
            note += COMMON.get(e, "")
        note += ABORT
        checks.append({
            "property_id": pid,
            "quick_cmd": f"./check {pid} --tier quick",
            "thorough_cmd": f"./check {pid} --tier thorough",
            "evidence_file": f"/verif/evidence/{pid}.json",
            "replay_cmd_template": f"./check {pid} --replay {{path}}",
            "engine": eng,
            "level_claimed": {"category": "model_checking", "text": text, "design_ref": f"DESIGN.md section {ref}"},
            "level_note": note,
            "technique": tech,
        })
    na = [{"property_id": p, "reason": "check not built yet (work in progress; DESIGN.md section 3 has the plan)"} for p in ALL if p not in CHECKS]
    m = {
        "version": 1,
        "setup_cmd": "cd /verif/harness && CARGO_NET_OFFLINE=true cargo build --release --offline && CARGO_NET_OFFLINE=true cargo build --profile nochecks --offline && CARGO_NET_OFFLINE=true cargo test --release --offline --test oracle_selftest && cd /verif/loomchk && CARGO_NET_OFFLINE=true cargo build --release --offline",
        "hooks": {
            "guard": "verif-hooks",
            "enable": "cargo feature `verif-hooks` of http-serve, enabled by the path dependency in /verif/harness/Cargo.toml (http-serve = { path = \"/repo\", features = [\"dir\", \"verif-hooks\"] })",
            "baseline_off_cmd": "cd /repo && cargo test --workspace --no-fail-fast --offline",
            "source_commits": hooks,
            "add_only": True,
        },
        "engines": [
            {"name": "sched_mc", "path": "/verif/harness/src/sched_mc.rs", "serves_properties": ["C10","C11","C12","C20"], "kind_free_text": "controlled-scheduler exploration of real producer/consumer threads (src/sched.rs) through the verif-hooks instrumented mutex; DFS over choice vectors, iterative preemption bounding, replayable schedules"},
            {"name": "loomchk", "path": "/verif/loomchk/src/main.rs", "serves_properties": ["C10","C11"], "kind_free_text": "loom (DPOR) exploration of the real /repo/src/chunker.rs and gzip.rs, compiled into the checker crate by #[path] inclusion with the verif-hooks mutex seam bound to loom::sync::Mutex; a second explorer next to sched_mc, run by ./check C10 and ./check C11"},
            {"name": "fs_mc", "path": "/verif/harness/src/fs_mc.rs", "serves_properties": ["C18","C19"], "kind_free_text": "enumeration of file/range/fault-point and path-string spaces on real files, std::fs as reference; src/sysched.rs: read/pread/lseek/clock_gettime defined by the checker executable (link-time interposition) -- exhaustive interleavings of the file system calls of threads sharing one entity, short-read / errno answers at every read call, controlled wall clock (C14)"},
            {"name": "stream_mc", "path": "/verif/harness/src/stream_mc.rs", "serves_properties": ["C08","C09","C11","C12","C17","C20"], "kind_free_text": "stateless exhaustive exploration of operation histories of the real streaming_body writer/body pair, byte-vector reference model, independent gzip decoder"},
            {"name": "neg_mc", "path": "/verif/harness/src/neg_mc.rs", "serves_properties": ["C15","C16","C17"], "kind_free_text": "exhaustive enumeration of the Accept-Encoding language and of negotiated streaming_body configurations against an independent RFC 7231 evaluator"},
            {"name": "serve_mc", "path": "/verif/harness/src/serve_mc.rs", "serves_properties": ["C01","C02","C03","C04","C05","C06","C07","C12","C13","C14","C15","C20"], "kind_free_text": "stateless exhaustive exploration of the real serve(): requests x entities x scripted entity-stream answers, reference-model oracle (src/oracle)"},
        ],
        "checks": checks,
        "notes": "All checks drive the compiled crate itself (no separate abstract model); exit 2 = machinery failure. known_findings.txt lists repaired defects (fixed:) and would list recorded ones (known:).",
        "not_applicable": na,
    }
    json.dump(m, open("/verif/MANIFEST.json", "w"), indent=1)
    print("checks:", len(checks), "not_applicable:", len(na))

main()
