#!/usr/bin/env python3
"""Stores confirmed seeded changes under /verif/seeded/<id>/ (patch.diff, demo.rs, notes.md, meta.json).

For every seed listed below it (1) takes the confirmation log written by tools/confirm_seed.sh
(existing suite passes with the change; demo passes without, fails with), (2) applies the patch
to /repo, runs the checks named in `checks` (quick tier) through tools/try_seed.sh, which always
restores /repo, and (3) writes meta.json. Seeds that fail confirmation are not kept.
"""
import json, os, re, shutil, subprocess, sys

SEEDS = {
 # id: (property, what it needs in order to manifest, extra checks to run besides the property's own)
 "C01-1": ("C01", "multipart response with a part whose last byte position is 10^k-1 (decimal width of end-1 differs from end): Content-Length one too large", ["C06", "C12"]),
 "C01-2": ("C01", "multipart response whose part stream returns Pending after having produced a chunk: the half-read part stream is dropped and the part re-fetched (bytes delivered twice)", ["C06", "C12"]),
 "C02-1": ("C02", "single range whose last-byte-pos equals the entity length exactly (bytes=a-L): resolved to a..L+1", ["C03"]),
 "C02-2": ("C02", "entity stream that yields an empty chunk while bytes are still owed: treated as end of stream", ["C01", "C12"]),
 "C03-1": ("C03", "last-byte-pos of exactly 2^64-1: whole Range header ignored (200) instead of being clamped", ["C13"]),
 "C03-2": ("C03", "two or more satisfiable ranges away from the start of a large entity: multipart-vs-200 estimate sums range ends instead of lengths", ["C06"]),
 "C04-1": ("C04", "`If-Match: *` together with an If-Unmodified-Since earlier than the modification second: * treated like an absent If-Match", []),
 "C04-2": ("C04", "strong entity ETag and an If-Match list containing the same opaque tag only in weak form (W/\"x\"): accepted", []),
 "C05-1": ("C05", "If-Range that is neither a quoted tag nor a valid HTTP-date (garbage, `*`, ISO date): Range honoured", []),
 "C05-2": ("C05", "If-Range equal to the strong ETag plus trailing bytes (\"foo\"bar, a tag list): treated as strongly equal", []),
 "C06-1": ("C06", "three or more parts: part headers emitted in swapped order (swap_remove) while part bodies keep request order", ["C01"]),
 "C06-2": ("C06", "multipart part ending at byte 9, 99, 999...: pre-computed Content-Length counts the digits of the half-open end", ["C01", "C12"]),
 "C07-1": ("C07", "entity stream that ends early right after an EMPTY chunk (also with Pending in between): clean end instead of an error", ["C01", "C02"]),
 "C07-2": ("C07", "multipart only: entity stream that fails right after the last byte of a part (or yields one more chunk): part stream dropped without the final poll, error swallowed", ["C20"]),
 "C08-1": ("C08", "one write of >= 2 chunks whose length is not a multiple of the chunk size into an empty writer buffer: tail queued but reported as not accepted (delivered twice with write_all)", ["C12"]),
 "C08-2": ("C08", "flush while a chunk is still queued unread and the current chunk is partly filled: flush skipped, bytes stay in the writer", ["C10"]),
 "C09-1": ("C09", "gzip negotiated and no byte ever written (drop, or flush+drop, or empty writes): body is 0 bytes instead of an empty gzip member", ["C17"]),
 "C09-2": ("C09", "large incompressible write (> 32 KiB in one call): the encoder's short write count is ignored, the tail is dropped", []),
 "C10-1": ("C10", "consumer polls Pending with waker A, re-polls with a fresh waker B, then the producer flushes/drops/aborts: stale waker A is woken, B never", []),
 "C10-2": ("C10", "producer critical section landing between the reader's queue check and its (separate) waker registration: lost wake-up", []),
 "C11-1": ("C11", "abort, then is_end_stream() consulted before the next poll: true although the error is pending", ["C12"]),
 "C11-2": ("C11", "body dropped while the raw writer sits exactly on a chunk boundary, then a write of >= 1 chunk: fast path returns Ok", []),
 "C12-1": ("C12", "multipart body whose part arrives in >= 2 chunks or after a Pending: `remaining` charged per part, hint too low in between", ["C01", "C06"]),
 "C12-2": ("C12", "streaming body: is_end_stream() true between abort and delivery of the error", ["C11"]),
 "C13-1": ("C13", "entity of >= 2^63 bytes and two or more huge ranges (bytes=0-,0-): unchecked multipart estimate overflows (panic)", ["C03"]),
 "C13-2": ("C13", "If-Match / If-None-Match whose last list element is a bare `W/` against an entity with an ETag: index out of bounds", ["C04"]),
 "C14-1": ("C14", "sub-second modification time and a second request echoing the served Last-Modified in If-Unmodified-Since (no If-Match): 412", ["C04"]),
 "C14-2": ("C14", "any 304 for an entity that supplies headers: entity headers leak into the 304", []),
 "C15-1": ("C15", "HEAD with two or more satisfiable ranges in the multipart zone: Content-Length missing", []),
 "C15-2": ("C15", "streaming_body + HEAD + gzip negotiated + level > 0: Content-Encoding missing for HEAD", ["C17"]),
 "C16-1": ("C16", "a 0.xxx weight containing the digit 9 (0.999) anywhere in the list: whole header unparseable -> false", ["C17"]),
 "C16-2": ("C16", "gzip listed with quality G > 0, identity unlisted, `*` listed with quality S > G: identity no longer inherits *'s quality", ["C17"]),
 "C17-1": ("C17", "gzip level 0 with an Accept-Encoding preferring gzip: no Content-Encoding header but a gzip (stored) body", []),
 "C17-2": ("C17", "HEAD + gzip negotiated + level 1..9: Content-Encoding missing for HEAD", ["C15"]),
 "C18-1": ("C18", "range longer than 65536, not a multiple of it, ending before EOF: read size computed from the whole range, last read not clamped", []),
 "C18-2": ("C18", "two instances of a file whose mtime differs only in nanoseconds: ETag without the sub-second part", []),
 "C19-1": ("C19", "`..` segment after an empty segment (a//.., a//../../secret): scan stops at the first empty segment", []),
 "C19-2": ("C19", "auto_gzip + gzip preferred + `<path>.gz` is a DIRECTORY: plain file opened but reported as gzip", []),
 "C20-1": ("C20", "full 200 / single 206 whose entity stream goes on after the over-long chunk with a chunk that fits into what was still owed before it: passed on as data after the error (data on extra poll 1, or 2-3 after another oversized chunk)", ["C07"]),
 "C20-2": ("C20", "multipart body polled at least TWICE more after its end (after an error: extra poll 1 is still None, polls 2..4 index out of bounds)", ["C06"]),
}

# second round: sub-agents were additionally told which ideas had been used already and where else to look
R2 = {
 "C03-3": ("/tmp/seeds2/C03/1", "C03", "suffix longer than the entity (bytes=-n, n > L): dropped as unsatisfiable (416; or a lone other range) instead of selecting the whole entity", []),
 "C03-4": ("/tmp/seeds2/C03/2", "C03", "an open-ended `first-` spec AFTER a `first-last` spec: inherits the previous spec's end instead of EOF (order matters)", ["C02"]),
 "C04-3": ("/tmp/seeds2/C04/1", "C04", "entity WITHOUT ETag but with a modification time + If-None-Match tag list + If-Modified-Since >= LM: If-None-Match treated as absent, 304", []),
 "C04-4": ("/tmp/seeds2/C04/2", "C04", "both a failing precondition (If-Match / If-Unmodified-Since) and a matching If-None-Match / If-Modified-Since: 304 checked before 412", []),
 "C06-3": ("/tmp/seeds2/C06/1", "C06", "entity that supplies a header field with two or more values: only the first value is rendered in each part", []),
 "C06-4": ("/tmp/seeds2/C06/2", "C06", "two ADJACENT range specs resolving to the same bytes (0-9,0-9 or -10,3990-): deduplicated, fewer parts / single-range 206", ["C03"]),
 "C08-3": ("/tmp/seeds2/C08/1", "C08", "two consecutive flushes (or flush then drop) of partial chunks with no consumer poll in between, both fitting one chunk: bytes appended to the queued chunk AND kept in the buffer (delivered twice)", []),
 "C09-3": ("/tmp/seeds2/C08/2", "C09", "gzip level 1, incompressible data in writes < 32 KiB, flush when ~58 250..61 440 bytes were written since the last flush: second encoder flush made conditional on the last write size", []),
 "C10-3": ("/tmp/seeds2/C10/1", "C10", "consumer parked, writer dropped with bytes buffered; the consumer's poll(chunk) and poll(Pending) both land between the drop's two critical sections (chunk hand-over, then writer_dropped without wake)", []),
 "C10-4": ("/tmp/seeds2/C10/2", "C10", "raw writer dropped with an EMPTY buffer while the consumer is parked: end flag published but the waker is only taken on the branch that pushes a chunk", []),
 "C11-3": ("/tmp/seeds2/C11/1", "C11", "body dropped while the queue is empty (before any data / mid-chunk / after everything was consumed): Reader::drop returns early without marking the state", []),
 "C11-4": ("/tmp/seeds2/C11/2", "C11", "gzip writer: abort then write (not flush) with a chunk size larger than what the encoder emits: `Dead` never entered, write returns Ok", []),
 "C12-3": ("/tmp/seeds2/C12/1", "C12", "writer dropped with >= 2 chunks queued, hint sampled after a post-drop frame: ready_bytes not decremented on that pop path (lower bound too high)", []),
 "C12-4": ("/tmp/seeds2/C12/2", "C12", "live writer with >= 1 chunk queued and more data to come: size_hint gives an upper bound (exact) although the writer is alive", []),
 "C13-3": ("/tmp/seeds2/C13/1", "C13", "extension methods that equal GET/HEAD only case-insensitively (get, Head): pass the method gate, no 405, entity read", []),
 "C15-3": ("/tmp/seeds2/C13/2", "C15", "HEAD + exactly one satisfiable range + If-Range byte-equal to the strong ETag + entity with headers: HEAD adds entity headers that GET omits", []),
 "C19-3": ("/tmp/seeds2/C19/1", "C19", "a dotted name (a.., ..a, ...) EARLIER in the path than a real `..` segment: only the first `..` occurrence is examined", []),
 "C18-3": ("/tmp/seeds2/C19/2", "C18", "a File that is neither regular nor a directory (/dev/null, FIFO): `!is_file()` became `is_dir()`", []),
 "C07-3": ("/tmp/seeds2/C07/1", "C07", "Poll::Pending from the entity stream exactly at the announced-length boundary, followed by an entity Err or an extra chunk: the one tail check is used up by the Pending", ["C20"]),
 "C20-3": ("/tmp/seeds2/C07/2", "C20", "200 / single 206, entity error right after the chunk that completes the range, then >= 1 extra poll: the held last chunk is released after the error", ["C07"]),
 "C14-3": ("/tmp/seeds2/C07/3", "C14", "modification time with a non-zero sub-second part (at least a second in the past): Last-Modified rounded UP to the next second", ["C04"]),
}

# third round: "deep" seeds -- sub-agents were given a bundle of related property texts and asked for
# changes that only manifest in big / long / rare scenarios (beyond small exhaustive bounds)
R2.update({
 "C16-3": ("/tmp/seeds3/E/1", "C16", "Accept-Encoding list whose deciding element is the 17th or later: only the first 16 elements are read", []),
 "C18-4": ("/tmp/seeds3/E/2", "C18", "a requested range of >= 2^32 bytes (sparse 4 GiB file): remaining length truncated to u32, read size 0 => UnexpectedEof on an unmodified file", []),
 "C19-4": ("/tmp/seeds3/E/3", "C19", "a request path longer than 252 bytes IN TOTAL (short segments) with auto_gzip, gzip accepted and a .gz sibling present: probe skipped, plain file served", []),
 "C04-5": ("/tmp/seeds3/B/1", "C04", "an entity-tag of >= 128 opaque bytes at or before the matching tag in If-Match / If-None-Match (e.g. the entity's own long ETag echoed back): list treated as corrupt", ["C14"]),
 "C03-5": ("/tmp/seeds3/B/2", "C03", "a Range header with 17 or more specs: only the first 16 satisfiable ranges are resolved (later ones dropped, later syntax errors unseen)", ["C06"]),
 "C15-4": ("/tmp/seeds3/B/3", "C15", "HEAD + >= 2 small ranges (multipart) + If-Range equal to the strong ETag + entity with headers: HEAD's Content-Length counts per-part entity headers that GET omits", []),
 "C12-5": ("/tmp/seeds3/C/1", "C12", ">= 64 chunks queued unpolled, the newest a partial chunk, then one more write + flush that fits: merged into the queued chunk without counting it in ready_bytes (hint / end flag wrong, or underflow)", ["C08"]),
 "C09-4": ("/tmp/seeds3/C/2", "C09", "gzip level 1: 58 251..61 440 incompressible bytes since the last flush in writes < 32 KiB (levels 2-9: 63 491..63 747, some splits), flush right after: second encoder flush made conditional", []),
 "C09-5": ("/tmp/seeds3/C/3", "C09", "gzip: a run of consecutive writes < 256 bytes totalling > 4096 bytes without flush (>= 17 calls): staging buffer overflow returns a short count but keeps the tail (bytes duplicated)", []),
 "C06-5": ("/tmp/seeds3/A/1", "C06", "multipart on an entity of >= 10^15 bytes with a range start, end or the length just below 10^k (k = 15..19): digit count computed with f64 log10 is one too large there", ["C01"]),
 "C06-6": ("/tmp/seeds3/A/2", "C06", "entity length within ~40 bytes of 2^64 and ranges leaving a 160..200-byte window: 80-byte estimate says multipart, exact length overflows; the last addition is unchecked (panic / wrapped Content-Length instead of 413)", ["C01", "C13"]),
 "C10-5": ("/tmp/seeds3/D/1", "C10", "consumer parked with W1, spurious re-poll with a different waker W2, and an abort that runs entirely between that poll's two lock acquisitions (waker swapped outside the lock; re-check ignores the Err state)", ["C11"]),
 "C10-6": ("/tmp/seeds3/D/2", "C10", "three consecutive Pending polls with wakers A, B, A (the second re-poll REUSES the older waker), then any publish: cached `registered` not updated on replace, stale waker woken", []),
})

# fourth round: deep seeds again, with the list of everything used so far as "avoid"
R2.update({
 "C01-3": ("/tmp/seeds4/A/1", "C01", "an Entity whose Data is a NON-CONTIGUOUS Buf (chunk().len() < remaining()): ExactLenStream counts chunk().len(), so an honest stream ends in a bogus error / an over-long one passes extra bytes", ["C02", "C07"]),
 "C06-7": ("/tmp/seeds4/A/2", "C06", "multipart without If-Range and an entity header value with bytes >= 0x80 that are not UTF-8 (Latin-1 file name): rendered through from_utf8_lossy in every part", []),
 "C03-6": ("/tmp/seeds4/B/1", "C03", "a position token longer than 20 characters because of leading zeros (bytes=000000000000000000001-2): whole header ignored", []),
 "C05-3": ("/tmp/seeds4/B/2", "C05", "strong ETag containing a byte >= 0x80, echoed in If-Range: value read with to_str().unwrap_or_default(), treated as a date, Range dropped", ["C14"]),
 "C12-6": ("/tmp/seeds4/C/1", "C12", ">= 2 chunks queued, the consumer takes fewer frames than were queued, then the writer is dropped with an empty buffer: reader-local queue not counted by is_end_stream", ["C08"]),
 "C17-3": ("/tmp/seeds4/C/2", "C17", "builder configured twice: with_gzip_level(0) and later with_gzip_level(1..9) on a gzip-preferring request: level 0 sticks", []),
 "C10-7": ("/tmp/seeds4/D/1", "C10", ">= 65 chunks queued and 64 consecutive Ready polls with the writer alive but idle: 'yield budget' returns Pending without waking itself", ["C08"]),
 "C11-5": ("/tmp/seeds4/D/2", "C11", ">= 9 chunks queued, the pop that leaves len <= capacity/4, and an abort landing between the reader's unlock and re-lock (queue taken out for shrink_to_fit, put back over the Err state)", ["C10"]),
})

# fifth round: under-seeded properties and "two cooperating sites"
R2.update({
 "C02-3": ("/tmp/seeds5/A/1", "C02", "multipart whose specs are not in ascending start order (40-49,5-9 / -6,0-9): the stream sorts ranges while the part headers stay in request order, parts carry each other's bytes", ["C06"]),
 "C05-4": ("/tmp/seeds5/A/2", "C05", "an If-Range that FAILS validation together with a Range whose specs are all unsatisfiable: 416 instead of the complete 200", []),
 "C15-5": ("/tmp/seeds5/A/3", "C15", "streaming_body + HEAD + gzip accepted + with_gzip_level(0): HEAD claims Content-Encoding: gzip, GET sends identity", ["C17"]),
 "C13-4": ("/tmp/seeds5/B/1", "C13", "a Range list element that is non-empty but only spaces/tabs (bytes=0-1, ,3-4 / 'bytes= '): slice with start > end, serve() panics", []),
 "C14-4": ("/tmp/seeds5/B/2", "C14", "strong ETag echoed in If-Range + a multi-range Range whose estimate forces the complete-200 fallback: that 200 carries none of the entity's headers", []),
 "C20-4": ("/tmp/seeds5/B/3", "C20", "multipart body whose SECOND or later part reports an error, then one more poll: ranges freed early, index out of bounds", []),
 "C16-4": ("/tmp/seeds5/C/1", "C16", "`*` BEFORE an explicit gzip / identity element that matters (*, gzip;q=0): scan stops once both have a quality", ["C17"]),
 "C16-5": ("/tmp/seeds5/C/2", "C16", "an UNWEIGHTED gzip / identity / * followed by space or tab before the comma or at the end (gzip , br): trailing whitespace kept, coding unknown", []),
 "C17-4": ("/tmp/seeds5/C/3", "C17", "gzip level exactly 9 with gzip preferred: header says gzip, writer is raw (exclusive range 1..9)", []),
 "C17-5": ("/tmp/seeds5/C/4", "C17", "method POST: Vary: accept-encoding missing (added only for GET/HEAD)", []),
 "C18-5": ("/tmp/seeds5/D/1", "C18", "a file whose mtime differs from its ctime (set_modified, touch -d): last_modified()/ETag built from the inode-change time", []),
 "C18-6": ("/tmp/seeds5/D/2", "C18", "same inode and length, mtimes related by k s - k ms (e.g. 0.999 s apart): secs*10^6 + nanos collides", []),
 "C19-5": ("/tmp/seeds5/D/3", "C19", "a path of the form .//abs/path (or exactly ./): leading ./ stripped after validation, remaining /abs/path is absolute and escapes the base", []),
 "C19-6": ("/tmp/seeds5/D/4", "C19", "auto_gzip(false) + gzip-preferring Accept-Encoding + existing .gz sibling: substitution happens anyway (and no Vary)", []),
 "C03-7": ("/tmp/seeds5/E/1", "C03", "a SUFFIX spec after comma + SP/HTAB (bytes=0-1, -5): parse_pos skips the whitespace but suffix detection still looks at byte 0; header ignored", []),
 "C04-6": ("/tmp/seeds5/E/2", "C04", "If-Match: * plus an If-Unmodified-Since earlier than the modification time: any_match returns None for both absent and *, caller evaluates the date", []),
 "C10-8": ("/tmp/seeds5/E/3", "C10", "a consumer poll landing between the writer's take_waker() critical section and its publish critical section (flush or drop): parks, never woken", []),
 "C11-6": ("/tmp/seeds5/E/4", "C11", "abort while the consumer is not inside poll_frame: size_hint exact(0) in the Err state and is_end_stream derived from it, so the body claims end-of-stream with the error pending", ["C12"]),
})

# sixth round: two changes per property, "needs something specific", with everything used so far as "avoid"
R2.update({
 "C04-7": ("/tmp/seeds6/C/C04-1", "C04", "If-Modified-Since later than the SERVER'S CLOCK (client clock ahead, year 9999, LM+1s on a fresh file) with If-None-Match absent: treated as invalid and ignored, 200 instead of 304", ["C14"]),
 "C04-8": ("/tmp/seeds6/C/C04-2", "C04", "If-Modified-Since / If-Unmodified-Since in the RFC 850 form (30..33 bytes, e.g. `Sunday, 06-Nov-94 08:49:37 GMT`): shared date helper rejects values longer than 29 bytes with 400", ["C13"]),
 "C05-5": ("/tmp/seeds6/C/C05-1", "C05", "If-Range of the same LENGTH as the strong ETag that differs only in its last byte (closing quote replaced: \"foo' / \"foo, / \"fooo): contents compared by position, Range honoured", ["C04"]),
 "C05-6": ("/tmp/seeds6/C/C05-2", "C05", "strong ETag containing a comma (\"a, b\") echoed byte-identically in If-Range: refused as a 'list', complete 200 instead of 206", ["C14"]),
 "C03-8": ("/tmp/seeds6/B/C03-1", "C03", "a position of exactly 2^64 .. 2^64+3 in any spec form: hand-rolled digit loop checks the multiply but not the final add (panic with overflow checks; wraps to 0..3 and answers 206 without)", ["C13"]),
 "C03-9": ("/tmp/seeds6/B/C03-2", "C03", "entity large enough for multipart and two CONSECUTIVE specs resolving to the same bytes, also in different spellings (990-,-10): ranges.dedup() after the multipart decision, one part fewer", ["C06"]),
 "C13-5": ("/tmp/seeds6/B/C13-1", "C13", "entity of 2^64-1 bytes and ranges whose total S satisfies S + 80n < L but S + real overhead >= 2^64 (2^64-209 <= S <= 2^64-162 for two parts): 413 branch removed, expect() panics", ["C06", "C01"]),
 "C13-6": ("/tmp/seeds6/B/C13-2", "C13", "non-GET/HEAD method together with a FAILING or MALFORMED conditional header (If-Match miss, early If-Unmodified-Since, garbage date): method gate moved behind the precondition check, 412 / 400 instead of 405", []),
 "C08-4": ("/tmp/seeds6/E/C08-1", "C08", "consumer polls the empty live body twice with two DIFFERENT wakers before any flush: the replace-waker arm leaves the state ReaderFused, stream ends early, writer gets BrokenPipe", ["C10", "C11"]),
 "C08-5": ("/tmp/seeds6/E/C08-2", "C10", "producer critical section between the reader's queue check and its waker store (waker cloned outside the lock): lost wake-up", ["C08"]),
 "C09-6": ("/tmp/seeds6/E/C09-1", "C09", "gzip negotiated and with_gzip_level(9): writer choice uses (1..9).contains, header site keeps level > 0: header says gzip, body is plain", ["C17"]),
 "C09-7": ("/tmp/seeds6/E/C09-2", "C09", "gzip: non-empty writes, then a direct write(&[]) as the last write before a flush: 'unflushed' flag overwritten, the flush is a no-op, streaming decoder gets nothing", []),
 "C01-4": ("/tmp/seeds6/A/C01-1", "C01", "honest entity stream that returns Pending exactly once between its LAST chunk and its end: look-ahead poll with ready! after remaining was zeroed drops the final chunk, clean end short of Content-Length", ["C02", "C07", "C12"]),
 "C01-5": ("/tmp/seeds6/A/C01-2", "C01", "entity length at or near 2^64-1 with ranges for which sum + 80n < len but the real multipart length >= 2^64: checked_add chain and 413 branch removed (panic / wrapped Content-Length)", ["C06", "C13"]),
 "C02-4": ("/tmp/seeds6/A/C02-1", "C02", "Range: bytes=-0 (or -00), alone or inside a list: suffix arithmetic 'tidied' with saturating_sub, zero suffix no longer dropped: 206 with Content-Range L-(L-1)/L or a degenerate multipart part", ["C03"]),
 "C02-5": ("/tmp/seeds6/A/C02-2", "C06", "multipart with a MATCHING If-Range (parts without entity headers): the blank line ending each part's header block moved inside the entity-header branch, header block runs into the data", ["C02", "C01"]),
 "C10-9": ("/tmp/seeds6/F/C10-1", "C10", "write, flush, write, drop WITHOUT a final flush while the flushed short chunk is still unconsumed (chunk size > both writes): top-up path returns before publishing writer_dropped, consumer parks forever; gzip: write flush drop", ["C08", "C11"]),
 "C10-10": ("/tmp/seeds6/F/C10-2", "C10", "consumer poll whose lock attempt collides with a writer critical section while no waker is stored: try_lock failure answered with Pending without registering a waker (needs real lock contention)", []),
 "C11-7": ("/tmp/seeds6/F/C11-1", "C11", "body dropped, then a raw-writer write offering strictly MORE bytes than the space left in the current chunk: the chunk-completing short write swallows the flush error and returns Ok(space_left)", []),
 "C11-8": ("/tmp/seeds6/F/C11-2", "C11", "abort directly after a successful flush with no byte written in between (.. flush abort flush): 'unflushed' fast path runs before the Dead check, every later flush returns Ok", []),
 "C12-7": ("/tmp/seeds6/G/C12-1", "C12", "multipart GET whose part chunk is a MULTI-SEGMENT Buf (chunk().len() < remaining()): remaining decremented by the first segment only, exact hint too high, end flag never true", ["C01", "C06"]),
 "C12-8": ("/tmp/seeds6/G/C12-2", "C12", "multipart with an entity length or range position >= 10^19 (20 decimal digits): arithmetic digit counter exits at 10^19, Content-Length / hint 1 short per such number", ["C06", "C01"]),
 "C20-5": ("/tmp/seeds6/G/C20-1", "C20", "GZIP streaming body aborted at any position, then >= 1 extra poll after the error: error queued as an item, the encoder's Drop writes header/trailer behind it, extra polls yield data and then a clean end", ["C11"]),
 "C20-6": ("/tmp/seeds6/G/C20-2", "C20", "multipart GET whose part stream ends EARLY (too short; not an entity error, not too long), then >= 1 extra poll: the too-short arm does not fuse, next part's header / trailer delivered after the error", ["C07"]),
 "C06-8": ("/tmp/seeds6/D/C06-1", "C06", "multipart without If-Range and an entity header VALUE with leading/trailing space or tab: per-part length computed from the untrimmed values, rendering trims them (two cooperating edits): Content-Length too large", ["C01", "C12"]),
 "C06-9": ("/tmp/seeds6/D/C06-2", "C06", "a SEQUENCE on one OS thread: a multi-range request that correctly gets 413 (length overflow), then any multipart response: thread_local scratch buffer not cleared on the 413 path, the next response's parts carry the earlier entity's headers", ["C01", "C14"]),
 "C07-4": ("/tmp/seeds6/D/C07-1", "C07", "Entity::Data that is a NON-CONTIGUOUS Buf with the surplus bytes of an over-long stream in a later segment: shared chunk_len() helper counts chunk().len(), surplus passed on beyond the announced length", ["C01", "C12"]),
 "C14-5": ("/tmp/seeds6/H/C14-1", "C14", "entity whose add_headers appends the same header name more than once (two Content-Language): 200 / single 206 keep only the first value", ["C06"]),
 "C14-6": ("/tmp/seeds6/H/C14-2", "C14", "strong ETag with obs-text bytes (>= 0x80) echoed in If-Range: helper goes through to_str(), Range ignored, 200 instead of 206", ["C05"]),
 "C15-6": ("/tmp/seeds6/H/C15-1", "C15", "HEAD multi-range (multipart zone) with a part whose last byte position is 9, 99, 999...: HEAD-only length arithmetic counts the digits of the half-open end, Content-Length one more than GET's per such part", ["C06", "C01"]),
 "C15-7": ("/tmp/seeds6/H/C15-2", "C15", "HEAD on an entity near 2^64 with ranges that pass the 80-byte estimate but whose exact multipart length overflows: GET answers 413, HEAD panics (checked build) / 206 with a wrapped length", ["C13", "C06"]),
 "C16-6": ("/tmp/seeds6/I/C16-1", "C16", "three elements at once: identity;q=0, gzip;q=G (G>0) and *;q=S with S>G: the refused identity is not recorded and inherits *'s quality", ["C17"]),
 "C16-7": ("/tmp/seeds6/I/C16-2", "C16", "valid UTF-8 header whose weight parameter has a multi-byte character as its second byte (gzip;q\\xc3\\xa9=1): str slice at a non-boundary panics (two cooperating edits)", []),
 "C17-6": ("/tmp/seeds6/I/C17-1", "C17", "gzip negotiated and the writer dropped without a single write or flush: lazily created encoder never exists, 0-byte body under Content-Encoding: gzip", ["C09"]),
 "C17-7": ("/tmp/seeds6/I/C17-2", "C17", "gzip: a write shorter than 256 bytes followed, with no flush between, by a write of >= 256 bytes: batched short write is emitted AFTER the long one (well-formed member, wrong byte order)", ["C09"]),
 "C18-7": ("/tmp/seeds6/J/C18-1", "C18", "same inode and length, mtimes mirrored around the epoch by less than a second (epoch-d vs epoch+d): signed seconds formatted, -0 == 0, identical ETag", []),
 "C18-8": ("/tmp/seeds6/J/C18-2", "C18", "file whose mtime lies in the future: constructor stores min(mtime, now), so last_modified() is not the file's and two instances on the untouched file get different ETags", []),
 "C19-7": ("/tmp/seeds6/J/C19-1", "C19", "request path that itself ends in .gz (a.gz) with a.gz.gz present, auto_gzip on, gzip preferred: probe skipped, plain a.gz served, encoding() None", []),
 "C19-8": ("/tmp/seeds6/J/C19-2", "C19", "plain file's mtime newer than its .gz sibling's (by >= 1 ns): 'stale precompressed file' guard refuses the substitution", []),
})

# seventh round: three changes per sub-agent (two properties each), same brief as round six plus
# "state kept between calls" and "values near the system clock" as examples; everything used so far as "avoid"
R2.update({
 "C01-6": ("/tmp/seeds7/A/1", "C01", "multipart GET whose part stream yields an EMPTY chunk before that part's last byte: 'don't forward zero-length frames' guard makes the empty chunk fall into the part-finished arm, rest of the part skipped, clean end short of Content-Length", ["C02", "C06", "C12"]),
 "C12-9": ("/tmp/seeds7/A/2", "C12", "multipart GET where a part stream fails with Err, then one more poll: fuse state computed as len << (1 | 1) (= send trailer) with remaining already 0: end flag true, then the trailer frame / underflow", ["C20", "C07"]),
 "C12-10": ("/tmp/seeds7/A/3", "C12", "200 / single 206 whose entity stream yields Err and then goes on with data, consumer polls after the error: remaining zeroed on Err, body claims end-of-stream, then delivers a bogus too-long error", ["C20", "C07"]),
 "C02-6": ("/tmp/seeds7/B/1", "C02", "multipart whose entity stream returns Pending (cur.take() not put back on Pending): stream dropped, part re-fetched from its first byte (bytes twice, or livelock when every fresh stream pends)", ["C06", "C01"]),
 "C06-10": ("/tmp/seeds7/B/2", "C06", "a range that overlaps TWO or more ranges already accepted (0-99,50-149,75-199; a triple duplicate): silently ignored 'against DoS', part missing from the multipart body", ["C03"]),
 "C02-7": ("/tmp/seeds7/B/3", "C02", "Entity::Data that is a two-segment Buf: shared buf_len() helper = chunk().len() in ExactLenStream, size_hint and MultipartStream: all bytes forwarded, then a bogus too-short error", ["C01", "C12"]),
 "C03-10": ("/tmp/seeds7/C/1", "C03", "entity whose own headers total >= ~80..150 bytes (repeated in every part) and a multi-range request with ranges + 80 each under L/2: multipart-vs-200 decided on the EXACT multipart length, complete 200 although multipart is mandatory", ["C06"]),
 "C05-7": ("/tmp/seeds7/C/2", "C05", "a FAILED If-Range together with two or more satisfiable ranges on an entity large enough for multipart: the failure is checked on the 416 and single-range arms only, multipart 206 served", ["C03"]),
 "C03-11": ("/tmp/seeds7/C/3", "C03", "a first-last spec with first >= L and an UNPARSEABLE last (2^64, non-digits): early `continue` before the last-byte-pos is validated, header no longer ignored (416 / 206 of the other spec instead of 200)", ["C13"]),
 "C04-9": ("/tmp/seeds7/D/1", "C04", "entity modification time within the FIRST second of the epoch (seconds == 0): whole seconds held in Option<NonZeroU64>, date conditions skipped although Last-Modified is sent (200 instead of 304)", ["C14"]),
 "C14-7": ("/tmp/seeds7/D/2", "C14", "two requests on one thread less than 1 s apart that straddle a second boundary, the second entity's mtime in the future or 'just now': Date taken from a per-thread cache refreshed by age, Last-Modified clamped against the real clock, Last-Modified > Date", []),
 "C14-8": ("/tmp/seeds7/D/3", "C14", "entity whose ETag is the EMPTY tag (\"\" or W/\"\") echoed in If-None-Match / If-Match, or an empty tag as the last list element: bounds check assumes a tag has >= 3 bytes, list treated as corrupt (200 instead of 304, 400 for If-Match)", ["C04"]),
 "C20-7": ("/tmp/seeds7/E/2", "C20", "abort on a GZIP (or raw, with buffered bytes) writer while the consumer is polled between abort's two steps (error published, then encoder/writer dropped): reader leaves a finished Ok state instead of ReaderFused, the drop queues bytes behind the delivered error", ["C11", "C10"]),
 "C20-8": ("/tmp/seeds7/E/3", "C20", "two cooperating edits: abort only forwards the error (writer stays usable) + the reader's Err arm leaves a finished Ok state; sequence abort, poll (Err), NO further poll, then drop(writer) or write+flush, then poll: data after the error, then a clean end", ["C11"]),
 "C08-6": ("/tmp/seeds7/F/1", "C08", ">= 130 chunks queued before the consumer polls, writer then dropped or idle: 'cooperative yield' after 128 back-to-back chunks returns Pending without waking itself", ["C10"]),
 "C11-9": ("/tmp/seeds7/F/2", "C11", "chunk size >= 8 (4096, 65536), body dropped, then a flush with 1..chunk/8 bytes pending: small-flush copy-out clears the staging buffer before the dead-state branch looks at it, flush returns Ok, bytes discarded, writer never told", []),
 "C08-7": ("/tmp/seeds7/F/3", "C08", "chunk size 65536 only: an explicit flush of a partial chunk of <= chunk-16384 bytes polled while the stream is live: shrink_to_fit path returns before restoring the state from ReaderFused, body ends early, later data lost", ["C11"]),
 "C17-8": ("/tmp/seeds7/G/1", "C17", "two or more Accept-Encoding header LINES whose first line alone gives another verdict than the joined list (identity + gzip): streaming_body joins the lines, should_gzip looks at the first only", ["C15"]),
 "C09-8": ("/tmp/seeds7/G/2", "C09", "gzip, chunk size a power of two in 256..16384 (default 4096), a flush first (header out of the staging buffer), then >= ~58 KiB incompressible data: bulk-write fast path stages an exact-multiple tail without pushing it, next write returns Ok(0), WriteZero, truncated member", ["C08"]),
 "C17-9": ("/tmp/seeds7/G/3", "C17", "builder: with_gzip_level(0) and THEN with_chunk_size(..) on a gzip-preferring request: with_chunk_size rebuilds from defaults, level silently back to 6, Content-Encoding: gzip although level 0", []),
 "C15-8": ("/tmp/seeds7/H/1", "C15", "streaming_body + HEAD + gzip negotiated + level > 0: the writer is built and dropped inside build(), its drop writes the 20-byte empty gzip member into the HEAD body (headers identical to GET)", ["C17"]),
 "C15-9": ("/tmp/seeds7/H/2", "C15", "HEAD multi-range (multipart zone, no If-Range) on an entity whose add_headers repeats a header NAME: HEAD sizes the header block with keys_len() (distinct names), Content-Length 4 bytes short per extra line per part", ["C06"]),
 "C10-11": ("/tmp/seeds7/H/3", "C10", "consumer parked first, then a payload that is an exact multiple of the chunk size, then flush / wait and nothing else: auto hand-over of a full chunk skips the wake ('coalescing'), the following flush has an empty buffer and wakes nobody", ["C08"]),
 "C16-8": ("/tmp/seeds7/I/1", "C16", "an UNWEIGHTED gzip / identity / * AFTER an element whose weight is not 1 (br;q=0, gzip): default weight hoisted out of the loop, the unweighted element inherits the previous element's weight", ["C17"]),
 "C13-7": ("/tmp/seeds7/I/2", "C13", "GET/HEAD with 65 or more satisfiable ranges on an entity large enough for multipart: 'hardening' answers 431, a status outside the documented set", ["C03", "C06"]),
 "C13-8": ("/tmp/seeds7/I/3", "C13", "multi-range request whose estimate sum(len_i) + 80n equals L EXACTLY (L=162 with 0-0,1-1; L=2^32 ...): '1 % saving' heuristic divides by the saving, divide by zero panic", ["C03"]),
 "C19-9": ("/tmp/seeds7/J/1", "C19", "auto_gzip + gzip preferred + `..` as the LAST segment (.., sub/.., a/..): validation runs on the buffer with .gz appended (`...gz` passes), the fallback strips .gz and opens `..` unvalidated", []),
 "C18-9": ("/tmp/seeds7/J/2", "C18", "same inode, length grows by k bytes AND mtime moves back by exactly 31*k seconds (or +k s with -31k ns): fields folded into one 64-bit value with h*31+v, adjacent fields cancel, identical ETag", []),
 "C18-10": ("/tmp/seeds7/J/3", "C18", "mtime BEFORE the epoch with a non-zero sub-second part (epoch - 1 ns, -0.25 s): mtime rebuilt from raw st_mtime/st_mtime_nsec subtracts the forward-counting nanoseconds, last_modified() wrong", []),
})

# eighth round: same brief; "interactions between features, configuration values nobody tries, the second
# and third call of something, what happens right after an error, exact boundaries of internal buffers"
R2.update({
 "C01-7": ("/tmp/seeds8/A/1", "C01", "multi-range request with sum + 80n < L <= exact multipart size (a window a few bytes wide, needs non-trivial entity headers): falls back to the full entity AFTER the builder already carries 206 + multipart Content-Type + Content-Length: two Content-Length values, full body", ["C03", "C06", "C15"]),
 "C07-6": ("/tmp/seeds8/A/2", "C07", "TWO opposite faults of equal size in different parts of one multipart response (one part k bytes short, another k bytes long): per-part length checks dropped for one global counter, the faults cancel, clean end", ["C06", "C02"]),
 "C12-11": ("/tmp/seeds8/A/3", "C12", "multipart GET whose part arrives in two or more chunks, hint sampled mid-part: a part's whole length is charged against `remaining` when its stream is created, exact hint too low", ["C01"]),
 "C03-12": ("/tmp/seeds8/B/1", "C03", "entity of 2^63..2^64 bytes and two or more ranges whose lengths plus 80 each total >= 2^64 (bytes=0-,1-): estimate summed without checked_add (panic with overflow checks; wraps, multipart, 413 without)", ["C13"]),
 "C02-8": ("/tmp/seeds8/B/2", "C02", "a number of 20 decimal digits (>= 10^19) in Content-Range / Content-Length: two cooperating edits (fixed-size format buffer + MAX_DECIMAL_U64_BYTES 'derived' as ilog10 = 19): serve() panics", ["C13", "C01"]),
 "C03-13": ("/tmp/seeds8/B/3", "C03", "SEQUENCE on one thread: a satisfiable Range (50-, -10) on an entity of length L1, then the identical header on a LONGER entity: thread_local memo keyed by the header bytes only, ranges resolved for L1 reused", ["C02"]),
 "C04-10": ("/tmp/seeds8/C/1", "C04", "entity-tag containing a byte >= 0x80 in If-None-Match / If-Match: shared field_value() helper goes through to_str(): If-None-Match treated as absent, If-Match answered 400", ["C14"]),
 "C13-9": ("/tmp/seeds8/C/2", "C13", "multipart part whose three numbers total >= 49 decimal digits (entity >= 10^16 bytes, ranges near the tail: bytes=-1,-3 on 2^63): part header formatted into an 80-byte stack array, write! unwrap panics", ["C06", "C01"]),
 "C04-11": ("/tmp/seeds8/C/3", "C04", "entity modified AFTER the server's clock (future mtime) and an If-(Un)Modified-Since between now and that time: the Last-Modified clamp moved before the conditional evaluation, conditions compare the clamped time", ["C14"]),
 "C05-8": ("/tmp/seeds8/D/1", "C05", "If-Range that differs from the strong ETag only by backslashes (\"a\\b\" vs \"ab\"): comparison 'supports quoted-pair', not byte-identical yet honoured", ["C04", "C14"]),
 "C14-9": ("/tmp/seeds8/D/2", "C14", "modification time that truncates to the epoch, second request echoing `Thu, 01 Jan 1970 00:00:00 GMT` in If-Modified-Since: unparseable dates folded into an epoch sentinel, `since > epoch && ..`, 200 instead of 304", ["C04"]),
 "C14-10": ("/tmp/seeds8/D/3", "C14", "entity ETag ending in an odd number of backslashes before the closing quote (\"C:\\data\\\"), echoed in If-None-Match / If-Match: list parser 'honours quoted-pair', tag never terminates, list corrupt", ["C04"]),
 "C06-11": ("/tmp/seeds8/E/1", "C06", "entity range stream that yields an EMPTY chunk followed by more data: 'don't forward empty frames' returns Pending without waking, the body stalls inside the part", ["C01", "C02"]),
 "C06-12": ("/tmp/seeds8/E/2", "C06", "multi-slice Buf as Entity::Data and a final chunk of a part of <= 256 bytes: 'coalesce small frames' copies d.chunk() (first slice only) together with the next part header, rest of the chunk dropped", ["C01", "C02"]),
 "C15-10": ("/tmp/seeds8/E/3", "C15", ">= 2 ranges with sum + 80n < L but an exact multipart body not smaller than the entity (needs > ~45 bytes of entity headers): GET falls through to the 200, HEAD still answers by the estimate alone (206 multipart)", ["C03"]),
 "C10-12": ("/tmp/seeds8/F/1", "C10", "producer write/flush/drop landing between the consumer's emptiness check and its waker registration (waker cloned outside the mutex, queue not re-checked): lost wake-up", ["C08"]),
 "C12-12": ("/tmp/seeds8/F/3", "C12", "200 / single 206 from an honest entity whose stream contains an EMPTY chunk before the range is complete, consumer polls again after the first error: empty chunk treated as too-short (remaining zeroed), end flag up, then a bogus too-long error", ["C01", "C02", "C07"]),
 "C10-13": ("/tmp/seeds8/H/1", "C10", "lock-free fast path for spurious polls: a re-poll with the SAME waker between the producer setting an AtomicBool `dirty` and taking the lock consumes the flag; the woken poll then sees dirty == false and returns Pending forever (needs a std atomic race)", []),
 "C11-10": ("/tmp/seeds8/H/2", "C11", "body dropped while the writer thread is inside a critical section: Reader::drop uses try_lock, fails, state never marked, queue never released, writer never told", ["C10"]),
 "C11-11": ("/tmp/seeds8/H/3", "C11", "write(&[]) -- the EMPTY slice -- after abort (or after the writer went dead): early `return Ok(0)` placed ahead of the Dead check", []),
 "C09-9": ("/tmp/seeds8/G/1", "C09", "gzip, more than ~1 MiB of incompressible output written with NO poll in between, then flush: a non-dropping flush of a partly filled chunk is skipped when >= 1 MiB is queued unread, the tail is not decodable", ["C08"]),
 "C09-10": ("/tmp/seeds8/G/2", "C09", ">= 129 chunks queued at the moment of a poll and a chunk size above 512: 'coalesce for a slow consumer' pops the next chunk before checking that it fits and does not put it back, one queued chunk silently lost", ["C08"]),
 "C20-9": ("/tmp/seeds8/G/3", "C20", "multipart GET, any part fails (entity error, too short, too long), then one extra poll: fuse state `len << (1 | 1)` is the send-closing-boundary state: trailer frame after the error (release) / underflow panic (checked)", ["C12"]),
 "C16-9": ("/tmp/seeds8/I/1", "C16", "a list containing x-gzip and no gzip element: x-gzip kept as an alias whose quality stands in for gzip's (true for 'x-gzip' alone, false for 'x-gzip;q=0, *')", ["C17"]),
 "C19-10": ("/tmp/seeds8/I/2", "C19", "auto_gzip + gzip preferred + an ORPHAN .gz (path.gz exists, the plain path does not): plain path opened first with `?`, NotFound instead of the .gz node", []),
 "C19-11": ("/tmp/seeds8/I/3", "C19", "path ending in `/` + auto_gzip + gzip preferred + `<path minus slash>.gz` exists: trailing slashes popped before .gz is appended (a/ opens a.gz instead of ENOTDIR; sub/ opens sub.gz instead of the directory)", []),
 "C17-10": ("/tmp/seeds8/J/1", "C17", "Accept-Encoding value with an obs-text byte (>= 0x80) in an element next to one that allows gzip (gzip, \\xfc): streaming_body decides on from_utf8_lossy, should_gzip on to_str() (false)", ["C16"]),
 "C18-11": ("/tmp/seeds8/J/2", "C18", "TWO live streams of one entity polled alternately, one range longer than 64 KiB: reads after the first use the shared file cursor (read(2) instead of pread), right length, wrong bytes", []),
 "C18-12": ("/tmp/seeds8/J/3", "C18", "construction through new_with_metadata (not new) on a directory / device: the is_file refusal moved into new() only", ["C19"]),
})

# ninth round: "assume every dimension named so far is enumerated; find a NEW one"
R2.update({
 "C01-8": ("/tmp/seeds9/A/1", "C01", "body polled INSIDE a tokio task with an honest entity that yields more than 128 always-ready frames in one task poll: cooperative-budget check with ready! after the chunk was taken and counted, the chunk is dropped, clean end short of Content-Length", ["C02", "C12"]),
 "C06-13": ("/tmp/seeds9/A/2", "C06", "multipart without If-Range and an entity header line longer than 998 bytes: 'folded' at arbitrary bytes with CRLF SP, extra lines in every part, value altered", ["C14"]),
 "C06-14": ("/tmp/seeds9/A/3", "C06", "multipart without If-Range and an entity header whose name does not start with `content-`: filtered out of every part", ["C14"]),
 "C02-9": ("/tmp/seeds9/B/1", "C02", "multipart part whose FIRST entity chunk is larger than 256 bytes and is followed by at least one more chunk: the first chunk is parked and emitted after the others (bytes reordered, lengths consistent)", ["C06", "C01"]),
 "C07-7": ("/tmp/seeds9/B/2", "C07", "multipart part whose entity stream yields Err (or ends) as its very FIRST item: prefetch on emitting the part headers only handles Ready(Some(Ok)), the failure is dropped", ["C06", "C20"]),
 "C07-8": ("/tmp/seeds9/B/3", "C07", "200 / single 206 whose entity stream is Ready(None) on its very first poll (immediate end, no Pending): serve() polls once with now_or_never and maps 'already over' to an empty body, Content-Length N with a clean 0-byte body", ["C01", "C02"]),
 "C04-12": ("/tmp/seeds9/C/1", "C04", "entity tag whose closing quote directly follows a backslash (\"a\\\"), echoed in If-None-Match / If-Match: list parser treats backslash as an escape, swallows the closing quote, list corrupt", ["C14"]),
 "C04-13": ("/tmp/seeds9/C/2", "C04", "entity whose ETag looks like the list separator (\", \") and an If-None-Match list of two or more other tags: substring fast path before the list walk answers 'matched'", ["C14"]),
 "C03-14": ("/tmp/seeds9/C/3", "C03", "a grammatical Range value longer than 8190 bytes (1000 one-byte specs; one spec padded with 9000 leading zeros): treated as absent, complete 200", ["C13"]),
 "C05-9": ("/tmp/seeds9/D/1", "C05", "an If-Range in tag form that does NOT equal the ETag together with an If-Match that passes (*, the current tag): strong comparison skipped because 'the validator was already checked', Range honoured", ["C04"]),
 "C13-10": ("/tmp/seeds9/D/2", "C13", "multipart from an entity of >= ~10^15 bytes with a range start, end or the length just below a power of ten: decimal_len via f64 log10 one digit too many, announced length exceeds the stream, debug_assert panics while draining", ["C06", "C01"]),
 "C13-11": ("/tmp/seeds9/D/3", "C13", "entity whose last_modified() is in year 10000 or later and a request with a consulted If-Modified-Since / If-Unmodified-Since (any value): the comparison round-trips the mtime through fmt_http_date, which panics", ["C04", "C14"]),
 "C14-11": ("/tmp/seeds9/E/1", "C14", "entity modified in the CURRENT clock second (Last-Modified == Date, a file just written) and a second request echoing only Last-Modified in If-Modified-Since within that second: 'racy timestamp' guard refuses the 304", ["C04"]),
 "C14-12": ("/tmp/seeds9/E/2", "C14", "two requests on one thread for the same future mtime, the first while it is still ahead of the clock, the second after it has passed: per-thread memo keyed by the unclamped mtime stores the clamped text, stale Last-Modified", []),
 "C15-11": ("/tmp/seeds9/E/3", "C15", "HEAD with both Range and If-Range: 'when the method is GET' reading makes HEAD ignore If-Range while still honouring Range (GET 200, HEAD 206)", ["C05"]),
 "C10-14": ("/tmp/seeds9/F/1", "C10", "producer flush / drop between the reader's two lock acquisitions (state restored and lock released before the waker is cloned and stored): lost wake-up", ["C08"]),
 "C09-11": ("/tmp/seeds9/F/2", "C17", "builder history with_gzip_level(0) then with_gzip_level(n>0): cached `compression` field re-derived from its previous value, None is sticky; header says gzip, body is plain", ["C17"]),
 "C08-8": ("/tmp/seeds9/F/3", "C10", "an explicit flush of a partly filled chunk while the consumer is inside poll_next: try_lock, on WouldBlock return Ok and keep the bytes: flush did nothing, consumer never woken (needs real contention / in-section preemption)", ["C10", "C09"]),
 "C10-15": ("/tmp/seeds9/G/1", "C10", "consumer parked on an empty queue, producer calls flush() with an EMPTY staging buffer, then write + flush: the idle flush takes the waker before its early return and drops it without waking", ["C08"]),
 "C12-13": ("/tmp/seeds9/G/2", "C12", "honest entity whose stream ends with a trailing EMPTY chunk after the last byte (also a 0-byte entity), consumer polls once more after the end flag: empty item with remaining == 0 becomes a too-long error", ["C01", "C07"]),
 "C10-16": ("/tmp/seeds9/G/3", "C10", "two cooperating edits: same-waker re-poll returns Pending without looking at the queue while a waker is registered + the full-chunk hand-over wakes a clone and leaves it registered: woken consumer gets Pending with a chunk queued", ["C08"]),
 "C11-12": ("/tmp/seeds9/H/1", "C11", "consumer parks with waker A, re-polls Pending with waker B, abort lands between that poll's unlock and re-lock (stale waker dropped and new one cloned outside the lock, state not re-checked): abort wakes nobody", ["C10"]),
 "C20-10": ("/tmp/seeds9/H/2", "C20", "multipart part that fails on its very FIRST poll, then an extra poll, with an entity whose second get_range for the same range succeeds (transient fault): immediate-error arm does not fuse, the range is requested again", ["C07"]),
 "C16-10": ("/tmp/seeds9/I/1", "C16", "two different weights of which at least one has a leading zero in the fraction (0.05, 0.009): value-based scaling (while q < 100 { q *= 10 }) makes 0.05 = 500", ["C17"]),
 "C17-11": ("/tmp/seeds9/I/2", "C17", "identity body written with write_vectored using >= 2 slices, one of which (not the last) reaches a chunk boundary: override sums per-slice counts without stopping at a partial write, bytes dropped in the middle", ["C08"]),
 "C18-13": ("/tmp/seeds9/J/1", "C18", "ONE instance reused: drain a whole-file stream of a file <= 65536 bytes, truncate the file, get_range again on the same instance: small-file cache answers from memory, clean end instead of UnexpectedEof", []),
 "C18-14": ("/tmp/seeds9/J/2", "C18", "the same instance queried after the file was touched: last_modified() does an fstat and returns the CURRENT mtime", []),
 "C19-12": ("/tmp/seeds9/J/3", "C19", "the header map passed to get() also carries a Range line (bytes=0-) next to a gzip-preferring Accept-Encoding: substitution suppressed for range requests, plain file, encoding() None", []),
})

# tenth round: "find something that is NOT on the list: another part of the API or of a trait contract, the environment, a relation between two inputs"
R2.update({
 "C15-12": ("/tmp/seeds10/A/2", "C15", "an entity whose add_headers READS the map it is given (adds a header only if no Content-Range is there) or REPLACES an entry serve already set (Content-Length, Accept-Ranges): HEAD collects entity headers in a fresh map and appends them", ["C14"]),
 "C15-13": ("/tmp/seeds10/A/3", "C15", "HEAD with an If-Range equal to the strong ETag and NO effective single range (no Range, an ignored Range, a multi-range that falls back to 200): HEAD early return tests the wrong flag and drops the entity headers of the 200", ["C14"]),
 "C02-10": ("/tmp/seeds10/B/1", "C02", "an entity stream that yields MORE THAN 1024 consecutive ready chunks: 'cooperative yield' checked after the inner stream was polled, the chunk just taken is dropped (gap, then a bogus too-short error)", ["C01", "C07"]),
 "C12-14": ("/tmp/seeds10/B/2", "C12", "entity near 2^64 and parts totalling between 2^64-199 and len-160: 413 path removed, exact length summed with saturating_add: Content-Length and exact hint saturated although more bytes follow", ["C01", "C06", "C13"]),
 "C12-15": ("/tmp/seeds10/B/3", "C12", "an honest entity whose streams are NOT fused (they misbehave when polled after None: rewind, or panic like futures' unfold), drained to the end / multipart past its first part: 'eager over-length detection' polls the stream again after it returned None", ["C02", "C20"]),
 "C03-15": ("/tmp/seeds10/C/1", "C03", "TWO or more SP/HTAB after a comma (bytes=0-1,  3-4): per-spec trim became strip_prefix (one character), header unparseable, 200", ["C13"]),
 "C03-16": ("/tmp/seeds10/C/2", "C03", "entity length EXACTLY 2^64-1 and a multi-range request that goes multipart: capacity helper decimal_len() loops with a saturating limit and never ends for u64::MAX: serve() hangs", ["C13", "C06"]),
 "C14-13": ("/tmp/seeds10/C/3", "C14", "second request echoing the served strong ETag in If-Match TOGETHER with the served Last-Modified in If-Modified-Since (no If-None-Match): 'has an etag condition' flag skips both date conditions, 200 instead of 304", ["C04"]),
 "C04-14": ("/tmp/seeds10/D/1", "C04", "modification time in the last ~120 ns of a second (nanos 999 999 999) and a date condition equal to Last-Modified: whole seconds taken from as_secs_f64(), which rounds up to the next second", ["C14"]),
 "C04-15": ("/tmp/seeds10/D/2", "C04", "If-Match / If-None-Match given as two or more header LINES with the matching tag on a line other than the last: every line's verdict is assigned instead of combined, the last line wins", ["C13"]),
 "C05-10": ("/tmp/seeds10/D/3", "C05", "HEAD with a satisfiable Range and a FAILING If-Range: If-Range looked up for GET only, HEAD answers 206", ["C15"]),
 "C08-9": ("/tmp/seeds10/G/2", "C08", "write!(w, \"..{}..\", x) (write_fmt with arguments) whose text straddles a chunk boundary under identity coding: override formats into a buffer and does ONE write whose count is discarded, tail dropped", ["C17"]),
 "C17-12": ("/tmp/seeds10/G/3", "C17", "Cache-Control: no-transform in the REQUEST next to an Accept-Encoding that prefers gzip: streaming_body refuses gzip although should_gzip says true (a relation between two request headers)", ["C15"]),
 "C10-17": ("/tmp/seeds10/H/1", "C10", "writer dropped while the consumer is parked, the woken consumer polls while the producer is still inside / just past wake() and BEFORE its Arc is released: reader infers 'writer gone' from Arc::strong_count == 1, parks again, nobody wakes it", ["C08"]),
 "C09-12": ("/tmp/seeds10/H/2", "C09", "HISTORY of two streams in one process: stream A aborted (or its body dropped) with a flushed chunk still unread, chunk size >= 1024; then any gzip stream B with the same chunk size: process-wide pool recycles chunk buffers without clearing them", ["C08", "C11"]),
 "C09-13": ("/tmp/seeds10/H/3", "C12", "writer dropped while two or more chunks are queued unread, consumer consults is_end_stream() after the next frame: cached seen_end flag set on writer_dropped alone, hyper-like consumer stops early (truncated member)", ["C12"]),
 "C16-12": ("/tmp/seeds10/I/2", "C16", "a run of TWO or more spaces / tabs next to a ',' or ';' beside the deciding element (br,  gzip / gzip;  q=0.5): OWS helper strips at most one character per side", ["C17"]),
 "C16-13": ("/tmp/seeds10/I/3", "C16", "identity's effective weight one of 0.251 / 0.253 / 0.502 / 0.506 / 0.511 and gzip exactly one thousandth lower: qvalue via f32 * 1000.0 truncated instead of rounded", ["C17"]),
 "C18-15": ("/tmp/seeds10/J/1", "C18", "the file GROWS after construction and a range ending at the construction-time length is drained: read size only clamped when the range ends before the recorded length, stream reads past range.end, then UnexpectedEof", []),
 "C19-13": ("/tmp/seeds10/J/2", "C19", "add_encoding_headers on a map that ALREADY holds a Vary entry (Vary: origin): insert became entry().or_insert(), Vary: accept-encoding not reported", []),
 "C19-14": ("/tmp/seeds10/J/3", "C19", "get() awaited inside a tokio LocalSet on a multi-thread runtime: block_in_place fast path chosen by runtime flavour panics there", []),
})

R2.update({
 "C13-12": ("/tmp/seeds10/E/1", "C13", "any multipart/byteranges body drained inside a tokio CURRENT-THREAD runtime: get_range for each part wrapped in block_in_place, which panics there", ["C06", "C01"]),
 "C06-15": ("/tmp/seeds10/E/2", "C06", "sum + 80n < L but the exact multipart length is not (long entity headers, small entity): second check falls through to the whole entity on a builder that already carries 206, multipart Content-Type and Content-Length", ["C01", "C03"]),
 "C07-9": ("/tmp/seeds10/F/1", "C07", "the stream delivers exactly the range, then ONE EMPTY chunk, then Err or one more non-empty chunk: an empty chunk at remaining == 0 is taken for the terminator, the later fault is never seen, clean end", ["C20", "C06"]),
 "C20-11": ("/tmp/seeds10/F/2", "C20", "streaming body: >= 2 chunks queued, the consumer takes one, abort, the next poll returns Err, the poll AFTER that returns a stale chunk from the reader-local claimed queue", ["C11", "C12"]),
 "C07-10": ("/tmp/seeds10/F/3", "C07", "200 / single 206 whose entity stream yields Err or one extra chunk as the very next item after the last announced byte: poll_frame returns None as soon as is_end_stream() is true, the entity stream is never polled past the last byte", ["C20"]),
})

# round 11: property text and worktree only (no list of used ideas)
R2.update({
 "C18-16": ("/tmp/seeds11/J/1", "C18", "two or more streams of ONE ChunkedReadFile polled truly concurrently on different OS threads: pread replaced by seek + read on the shared file description, one thread's seek lands between another's seek and read (right count, wrong bytes)", []),
 "C19-15": ("/tmp/seeds11/J/2", "C19", "auto_gzip + gzip preferred + the requested path itself ends in .gz and has no .gz.gz sibling: is_gzipped derived from the opened name's suffix, plain a.gz reported as gzip-encoded", []),
 "C18-17": ("/tmp/seeds11/J/3", "C18", "a file whose mtime is BEFORE 1970 and not on a whole second: mtime rebuilt from mtime()/mtime_nsec() subtracts the nanoseconds, last_modified() off by 2 x nsec, ETag encodes a time the file never had", []),
 "C15-14": ("/tmp/seeds11/E/1", "C15", "multipart HEAD on an entity of >= 10^19 bytes (20-digit positions or length): HEAD-only arithmetic digit count from an 18-entry power table, Content-Length short by one per 20-digit number", ["C06"]),
 "C13-13": ("/tmp/seeds11/E/2", "C13", "extension method equal to GET / HEAD only case-insensitively (get, Head): method gate compares case-insensitively, served as GET (200, entity read, no Allow)", ["C15"]),
 "C15-15": ("/tmp/seeds11/E/3", "C15", "streaming_body + HEAD + gzip preferred + with_gzip_level(0): HEAD site lost the level > 0 half, Content-Encoding: gzip on HEAD only", ["C17"]),
 "C05-11": ("/tmp/seeds11/D/1", "C05", "If-Range equal to the strong ETag followed by a trailing comma and optional blanks (\"foo\", ): validated through the list parser, which swallows one trailing comma; 206", []),
 "C05-12": ("/tmp/seeds11/D/2", "C05", "FAILED If-Range together with an entirely unsatisfiable Range: only satisfiable ranges are cancelled, 416 instead of the complete 200", ["C03"]),
 "C06-16": ("/tmp/seeds11/D/3", "C06", "HISTORY on one thread: a multi-range request answered 413 (overflow) leaves its entity's rendered headers in a thread-local scratch buffer; the next multipart response on that thread prepends them to every part", ["C13", "C01"]),
 "C04-16": ("/tmp/seeds11/C/1", "C04", "If-Modified-Since later than the Last-Modified second AND later than the system clock (no If-None-Match): 'date in the future is invalid' rule, 200 instead of 304", ["C14"]),
 "C14-14": ("/tmp/seeds11/C/2", "C14", "entity whose add_headers appends two or more values under ONE name, on a 200 / single 206: merged through a vacant-entry check, later values dropped", ["C15"]),
 "C04-17": ("/tmp/seeds11/C/3", "C04", "date condition in asctime format with a one-digit day (double space): whitespace normalised before parsing, 400", ["C13"]),
 "C16-14": ("/tmp/seeds11/I/1", "C16", "an empty list element (gzip, / , gzip / gzip, , br): whole header counted unparseable, false", ["C17"]),
 "C16-15": ("/tmp/seeds11/I/2", "C16", "a horizontal TAB in the optional whitespace directly after the ';' of a weighted element (gzip;\tq=1): only spaces trimmed there, element unparseable, false", ["C17"]),
 "C17-13": ("/tmp/seeds11/I/3", "C17", "with_gzip_level(0) followed LATER by with_gzip_level(n > 0) on a request that prefers gzip: the setter folds 'level > 0' into should_gzip irreversibly, identity body although level n", ["C15"]),
 "C03-17": ("/tmp/seeds11/B/1", "C03", "sum + 80n < L/2 but exact multipart length >= L (entity headers of > ~120 bytes repeated per part, mid-size L): falls back to a complete 200 where the statement requires multipart", ["C06"]),
 "C02-11": ("/tmp/seeds11/B/2", "C02", "entity stream returns Pending exactly between its LAST chunk and its end: look-ahead poll with ready! drops the final chunk, clean end short", ["C01", "C07"]),
 "C03-18": ("/tmp/seeds11/B/3", "C03", "a spec with first >= L and an UNPARSEABLE last-byte-pos (bytes=10-x, 10-2^64): skipped before its end is parsed, 416 / 206 of the other spec instead of the ignored-header 200", ["C13"]),
})

R2.update({
 "C01-9": ("/tmp/seeds11/A/1", "C01", "multipart response where a range start, end-1 or the entity length is 10^k-1 or 10^k-2 for k = 15..19: length formula through f64 log10 counts one digit too many, Content-Length larger than delivered", ["C06", "C12"]),
 "C07-11": ("/tmp/seeds11/A/2", "C07", "the entity stream delivers exactly the range, returns PENDING, and only then fails or yields an extra chunk: Pending at remaining == 0 taken for the end, clean end", ["C20", "C01"]),
 "C01-10": ("/tmp/seeds11/A/3", "C01", "entity near 2^64 whose multipart total without the 9-byte trailer lands in 2^64-9 ..= 2^64-1: trailer added with a plain +, panic (checked build) / 206 with a wrapped Content-Length", ["C13", "C06"]),
 "C09-14": ("/tmp/seeds11/G/1", "C09", "gzip level 1, incompressible data, SEVERAL medium writes each below 16 KiB (5 x 12000), then one flush: second flate2 flush only after a large single write, tail of the data not decodable after the flush", ["C08"]),
 "C08-10": ("/tmp/seeds11/G/2", "C08", "chunk size >= 1024: write(a), flush, no poll, writes totalling EXACTLY chunk - a, flush: flush tops up the queued chunk, an exactly fitting remainder queues an empty frame", ["C12"]),
 "C08-11": ("/tmp/seeds11/G/3", "C08", "16 or more chunks queued unread (>= 6 producer operations without a poll), then a partial write and flush: 'backlog' heuristic returns Ok without queueing, flushed bytes not available", ["C09", "C10"]),
 "C10-18": ("/tmp/seeds11/H/1", "C10", "two or more chunks queued at one poll, writer dropped before the reader-local batch is drained, consumer consults is_end_stream() between frames (as hyper does): true while flushed chunks are undelivered", ["C12", "C08"]),
 "C11-14": ("/tmp/seeds11/H/2", "C11", "body dropped, staging buffer empty, ONE write of at least two chunks: bulk path discards the data and returns Ok, the producer is never told", ["C08"]),
 "C10-19": ("/tmp/seeds11/H/3", "C10", "writer drop-without-data or abort landing between the reader's unlock and re-lock around waker.clone() on its Pending path: terminal event not re-checked, consumer parks forever", ["C11"]),
})

R2.update({
 "C12-16": ("/tmp/seeds11/F/1", "C12", "multipart GET on an entity whose length or a range position has 20 digits (>= 10^19): length computed ahead from an 18-entry power table, hint one short per 20-digit number, is_end_stream true early", ["C01", "C06"]),
 "C12-17": ("/tmp/seeds11/F/2", "C12", "writer dropped before the consumer drains; queue front = partial flushed chunk + a small chunk that fits into its spare capacity + at least one chunk that does not: 'tail coalescing' forgets to subtract the absorbed bytes, lower bound too high", ["C08"]),
 "C20-12": ("/tmp/seeds11/F/3", "C20", "multipart response, a failure in any part, consumer polls again (1-2 extra polls): error arm no longer clears the current part stream, stale stream polled, state runs past the end, index out of bounds", ["C06"]),
})

# round 12: property text and worktree only
R2.update({
 "C05-13": ("/tmp/seeds12/C/1", "C05", "entity strong ETag with an obs-text byte and an If-Range that is a DIFFERENT strong tag also containing one: identity test through to_str(), which fails for both (None == None), 206", []),
 "C03-19": ("/tmp/seeds12/C/2", "C03", "a position written with more than 20 characters through leading zeros (bytes=000000000000000000010-...): 'longer than 20 digits is unparseable' early exit, header ignored, 200", ["C13"]),
 "C05-14": ("/tmp/seeds12/C/3", "C05", "an If-Range that does not validate together with a Range whose specs are all unsatisfiable: only the Satisfiable arm is guarded, 416 instead of the complete 200", ["C03"]),
 "C16-16": ("/tmp/seeds12/I/1", "C16", "a list with `*` placed BEFORE an explicit gzip / identity element with a differing weight (*, gzip;q=0): get_or_insert lets the earlier * win, result depends on order", ["C17"]),
 "C20-13": ("/tmp/seeds12/I/2", "C20", "multipart body, any part failure, then one or more extra polls: the error arm frees `ranges` after computing the end state from its old length, next poll indexes an empty vector", ["C06"]),
 "C16-17": ("/tmp/seeds12/I/3", "C16", "a space or tab BETWEEN the coding and its ';' (gzip ;q=0.5): the blank stays attached to the coding, element silently ignored", ["C17"]),
 "C06-17": ("/tmp/seeds12/B/1", "C06", "multi-range without If-Range and an entity header value that is not valid UTF-8 (a lone Latin-1 byte): per-part copy through from_utf8_lossy, the byte becomes EF BF BD inside every part", ["C14"]),
 "C02-12": ("/tmp/seeds12/B/2", "C02", "an EMPTY chunk from the entity stream before the last byte of the range: taken for the end of the stream, too-short error after a prefix", ["C01", "C07"]),
 "C06-18": ("/tmp/seeds12/B/3", "C06", "multi-range without If-Range and add_headers leaving two or more values under ONE name: part headers iterate keys() and read h[k], later values dropped from every part", ["C14"]),
 "C15-16": ("/tmp/seeds12/F/1", "C15", "HEAD + >= 2 ranges served as multipart + If-Range equal to the strong ETag + entity with headers: HEAD fast path always counts the entity headers per part", ["C06"]),
 "C17-14": ("/tmp/seeds12/F/2", "C17", "HISTORY on one thread: two streaming_body calls whose Accept-Encoding values differ only in letter case (gzip, then GZIP): thread-local memo matched case-insensitively, the second inherits the first's answer", ["C16"]),
 "C17-15": ("/tmp/seeds12/F/3", "C17", "gzip negotiated, level 1..9, and NO byte written before the writer is dropped (or only empty writes and flushes): lazy encoder never built, Content-Encoding: gzip with a zero-byte body", ["C09"]),
 "C04-18": ("/tmp/seeds12/D/1", "C04", "If-Match / If-None-Match list containing a tag with an obs-text byte (>= 0x80): 'validity check' marks the list corrupt (If-None-Match ignored: 200 instead of 304; If-Match: 400)", ["C14"]),
 "C04-19": ("/tmp/seeds12/D/2", "C04", "If-Modified-Since later than the wall clock (no If-None-Match): treated as invalid, 200 instead of 304", ["C14"]),
 "C13-14": ("/tmp/seeds12/D/3", "C13", "entity of 2^64-1 bytes, >= 2 parts, summed part lengths in a 9-value window below 2^64: closing delimiter added with a plain +=, panic (checked build) / wrapped Content-Length", ["C01", "C06"]),
 "C18-18": ("/tmp/seeds12/J/1", "C18", "a file whose mtime is before 1970 with a non-zero sub-second part: time rebuilt from mtime()/mtime_nsec() subtracts the nanoseconds", []),
 "C19-16": ("/tmp/seeds12/J/2", "C19", "HISTORY on one FsDir: get(p, gzip) while p.gz is absent, then p.gz is created, then get(p, gzip) again: a never-invalidated 'plain only' set skips the .gz lookup", []),
 "C18-19": ("/tmp/seeds12/J/3", "C18", "file of 1..=65536 bytes, ONE instance reused: an earlier stream read the whole file (cached in a OnceLock), the file is truncated afterwards, a later stream is answered from memory and succeeds", []),
 "C14-15": ("/tmp/seeds12/E/2", "C14", "an entity ETag containing an obs-text byte or a tab, echoed in If-None-Match / If-Match: the list parser marks such tags corrupt (200 instead of 304; 400)", ["C04"]),
 "C14-16": ("/tmp/seeds12/E/3", "C14", "HISTORY on one thread: two requests less than 1 s apart with a second boundary between them, the second for an entity modified in the new second: per-thread Date cache not expired at the boundary, Last-Modified exceeds Date", []),
})

R2.update({
 "C08-12": ("/tmp/seeds12/G/1", "C08", "at least 129 chunks delivered back-to-back and a producer that does nothing afterwards (idle or dropped): 'cooperative yield' returns Pending after 128 chunks and registers the waker instead of waking itself, flushed bytes stay queued", ["C10", "C12"]),
 "C11-15": ("/tmp/seeds12/G/3", "C11", "two consecutive Pending polls with DIFFERENT wakers and no writer wake-up in between, then abort (or flush / drop): waker stored only if none is registered, the stale first waker is woken, the waiting task never", ["C10"]),
 "C09-15": ("/tmp/seeds12/H/1", "C09", "many small unflushed writes (1000 bytes each) then ONE flush right after the write during which flate2's 32 KiB buffer filled (59..61 pieces of random data at level 1; 63 pieces of ~80%-compressible data at any level): second flush only after a write >= 32 KiB", ["C08"]),
 "C10-20": ("/tmp/seeds12/H/2", "C10", "consumer parked; producer writes a multiple of the chunk size, flushes and does not drop: completed chunks are queued without notification and flush returns early on an empty buffer, never waking", ["C08"]),
 "C10-21": ("/tmp/seeds12/H/3", "C10", "consumer parked with waker A, re-polled spuriously with a fresh waker B, producer's flush lands between the reader's two lock acquisitions (stale waker dropped outside the lock, queue not re-checked): lost wake-up", ["C11"]),
 "C01-11": ("/tmp/seeds12/A/1", "C01", "multipart GET (no matching If-Range) on an entity whose add_headers leaves a name with TWO values: per-part header length counted with keys_len(), Content-Length too small", ["C06", "C12"]),
 "C12-18": ("/tmp/seeds12/A/2", "C12", "a zero-length write(&[]) while no chunk is in progress as the last write before a flush or the drop (identity coding): an empty chunk is queued; is_end_stream() true and hint 0 while it is still queued, then a frame", ["C08"]),
 "C01-12": ("/tmp/seeds12/A/3", "C01", "multipart response with a part whose last byte position is 9, 99, 999...: length computed from the half-open end, one byte too large per such part", ["C06", "C12"]),
})

# round 13: property text and worktree only
R2.update({
 "C06-19": ("/tmp/seeds13/A/1", "C06", "multi-range without If-Range and an entity that appends the same header name twice: by-value HeaderMap iteration yields None for the repeated name, later lines dropped from every part", ["C14"]),
 "C01-13": ("/tmp/seeds13/A/2", "C01", "entity near 2^64 with long part headers whose multipart total lands in u64::MAX-8 ..= u64::MAX: closing delimiter added unchecked, panic / wrapped Content-Length", ["C13", "C06"]),
 "C06-20": ("/tmp/seeds13/A/3", "C06", "multi-range without If-Range and an entity header value with a non-UTF-8 byte: part header block built through from_utf8_lossy", ["C14"]),
 "C07-12": ("/tmp/seeds13/B/1", "C07", "an entity whose Data is a NON-CONTIGUOUS Buf: chunk accounting by chunk().len(), an over-long chunk passes, a correct segmented one is reported too short", ["C02", "C01"]),
 "C02-13": ("/tmp/seeds13/B/2", "C02", "multipart response whose ranges are not in ascending order (bytes=-20,0-99): ranges sorted after the part headers were built in request order", ["C06"]),
 "C02-14": ("/tmp/seeds13/B/3", "C02", "two ADJACENT ranges resolving to the same interval inside a multipart response (bytes=0-9,0-9,100-149): ranges.dedup() after headers and Content-Length were computed", ["C06", "C01"]),
 "C03-20": ("/tmp/seeds13/C/1", "C03", "any position written with 20 digits (10^19 ..= 2^64-1, e.g. 2^64-1): 'more than 19 digits cannot fit' guard, header ignored", ["C13"]),
 "C13-15": ("/tmp/seeds13/C/2", "C13", "two or more If-None-Match (or If-Match) header LINES that are all empty: joined list truncated by 2 from length 0 (panic in checked builds)", ["C04"]),
 "C03-21": ("/tmp/seeds13/C/3", "C03", "more than 200 satisfiable specs on an entity large enough that multipart is required: MAX_RANGES limit answers the complete 200", ["C06"]),
 "C04-20": ("/tmp/seeds13/D/1", "C04", "If-Modified-Since later than Last-Modified AND later than the wall clock: treated as invalid, 200 instead of 304", ["C14"]),
 "C14-17": ("/tmp/seeds13/D/2", "C14", "HISTORY on one thread: two requests less than 1 s apart with a second boundary between them, the second for an entity modified in the future / just now: Date re-rendered only after 1 s on Instant, Last-Modified exceeds Date", []),
 "C14-18": ("/tmp/seeds13/D/3", "C14", "a strong entity ETag with an obs-text byte echoed in If-Range + Range: to_str() fails, value falls into the 'date, never matches' arm, 200 instead of 206", ["C05"]),
 "C05-15": ("/tmp/seeds13/E/1", "C05", "If-Range holding a LIST whose any element strongly matches (\"v1\", \"v2\" / \"v2\", garbage): list parser reused with any(), 206", []),
 "C15-17": ("/tmp/seeds13/E/2", "C15", "HEAD multi-range where the entity length or a position is just below a power of ten from 10^15 up: HEAD-only length measurement through f64 log10", ["C06"]),
 "C15-18": ("/tmp/seeds13/E/3", "C15", "streaming_body + HEAD + gzip preferred + final level 0: HEAD arm tests only should_gzip", ["C17"]),
 "C17-16": ("/tmp/seeds13/F/1", "C17", "with_gzip_level(0) followed by with_gzip_level(n > 0) on a request that prefers gzip: negotiation result folded into an Option that level 0 clears for good", ["C15"]),
 "C12-19": ("/tmp/seeds13/F/2", "C12", "multipart GET on an entity whose Data is a non-contiguous Buf: running `remaining` decremented by chunk().len(), exact hint overstates, is_end_stream stays false after the trailer", ["C01", "C06"]),
 "C12-20": ("/tmp/seeds13/F/3", "C12", "abort, then is_end_stream() observed before the next poll: size_hint exact 0 in the aborted state + is_end_stream derived from the hint", ["C11"]),
 "C10-22": ("/tmp/seeds13/G/1", "C10", "writer dropped with a non-empty buffer while the consumer is parked; the consumer polls (data, then Pending, waker re-registered) between the drop's flush and its second lock acquisition: end-of-stream wake skipped", ["C08"]),
 "C08-13": ("/tmp/seeds13/G/2", "C08", "chunk >= 3: flush of a short piece, no poll, a second piece that overflows the room left in the queued chunk, flush: the remainder stays in the writer's private buffer", ["C09"]),
 "C10-23": ("/tmp/seeds13/G/3", "C10", "re-poll with a waker that shares its DATA POINTER with the registered one and differs only in vtable: will_wake replaced by a data-pointer comparison, stale waker kept", ["C11"]),
 "C11-16": ("/tmp/seeds13/H/1", "C11", "body polled to Pending twice under different wakers with no flush in between, then abort: waker stored only if none is stored", ["C10"]),
 "C09-16": ("/tmp/seeds13/H/2", "C10", "gzip negotiated, consumer parked, compressed output ending on a chunk boundary through a fast path of write (always at chunk size 1): chunk queued without waking, flush returns early (delivered to us under C09; what it breaks is the wake-up clause of C10: the frames are there for a consumer that polls)", ["C09", "C08"]),
 "C11-17": ("/tmp/seeds13/H/3", "C11", "abort at any position, then is_end_stream() inspected before the next poll_frame: true while the error is pending", ["C12"]),
 "C16-18": ("/tmp/seeds13/I/1", "C16", "whitespace before the ';' of a weight on gzip / identity / * (gzip ;q=0, *): the blank stays attached to the coding, element ignored", ["C17"]),
 "C19-17": ("/tmp/seeds13/I/2", "C19", "auto_gzip + gzip preferred + <path>.gz is a DIRECTORY: buffer not truncated in that arm, the directory <path>.gz is opened", []),
 "C19-18": ("/tmp/seeds13/I/3", "C19", "path ending in '/' + auto_gzip + gzip preferred + <stem>.gz exists: trailing slashes popped before appending .gz, get(\"a/\") returns a.gz", []),
 "C18-20": ("/tmp/seeds13/J/1", "C18", "file truncated AFTER the first poll to a length strictly inside the range's last read-size chunk: stream advances by the requested read size, clean end short", []),
 "C20-14": ("/tmp/seeds13/J/2", "C20", "multipart response, an entity error in a part, at least two further polls: failed part's stream kept, second error, then index out of bounds", ["C06"]),
 "C18-21": ("/tmp/seeds13/J/3", "C18", "pre-1970 mtime with non-zero nanoseconds: rebuilt time 2 x nanos too early", []),
})

def sh(cmd, **kw):
    return subprocess.run(cmd, shell=True, capture_output=True, text=True, **kw)

def main():
    only = sys.argv[1:]
    items = [(sid, f"/tmp/seeds/{sid.replace('-', '/')}", prop, needs, extra, 1) for sid, (prop, needs, extra) in SEEDS.items()]
    items += [(sid, src, prop, needs, extra, 2) for sid, (src, prop, needs, extra) in R2.items()]
    for sid, src, prop, needs, extra, rnd in items:
        if only and sid not in only:
            continue
        log = f"/var/tmp/confirm/{sid}.log"
        if not os.path.exists(f"{src}/patch.diff"):
            print(sid, "not delivered yet"); continue
        if not os.path.exists(log):
            feat = "dir" if prop in ("C19",) else ("verif-hooks" if sid in ("C10-8",) else "")
            r = sh(f"/verif/tools/confirm_seed.sh {src} {feat}")
            open(log, "w").write(r.stdout + r.stderr)
        text = open(log).read()
        parts = re.split(r"^--- ", text, flags=re.M)
        sect = {p.split("\n", 1)[0]: p for p in parts if p.strip()}
        without = sect.get("demo WITHOUT the change", "")
        suite = sect.get("existing suite WITH the change", "")
        with_ = sect.get("demo WITH the change", "")
        ok_without = "test result: ok" in without and "FAILED" not in without
        ok_suite = suite.count("test result: ok") >= 4 and "FAILED" not in suite and "Terminated" not in suite and "error" not in suite
        fails_with = ("FAILED" in with_ or "Terminated" in with_)
        confirmed = ok_without and ok_suite and fails_with
        if not confirmed:
            print(sid, "NOT CONFIRMED", dict(ok_without=ok_without, ok_suite=ok_suite, fails_with=fails_with)); continue
        checks = [prop] + [c for c in extra if c != prop]
        r = sh(f"/verif/tools/try_seed.sh {src}/patch.diff {' '.join(checks)}")
        det = {}
        for m in re.finditer(r"^== (C\d+) rc=(\d+) (\d+) violation", r.stdout, flags=re.M):
            det[m.group(1)] = {"exit": int(m.group(2)), "violation_lines": int(m.group(3))}
        keys = {}
        cur = None
        for line in r.stdout.splitlines():
            m = re.match(r"^== (C\d+) ", line)
            if m: cur = m.group(1); keys[cur] = []
            elif line.startswith("# ") and cur: keys[cur].append(line[2:].split(":")[0])
        dst = f"/verif/seeded/{sid}"
        os.makedirs(dst, exist_ok=True)
        for f in ("patch.diff", "demo.rs", "notes.md"):
            shutil.copy(f"{src}/{f}", f"{dst}/{f}")
        meta = {
            "seed": sid,
            "property": prop,
            "origin": "written by an independent sub-agent that was given only the property text and a scratch worktree of /repo (nothing from /verif)" + ("; second round: it was also told which ideas the first round had used and where else in the code to look" if rnd == 2 else ""),
            "needs_to_manifest": needs,
            "confirmed_by_me": {
                "how": "tools/confirm_seed.sh in a scratch worktree under /tmp (removed afterwards)",
                "existing_suite_passes_with_change": ok_suite,
                "demo_passes_without_change": ok_without,
                "demo_fails_with_change": fails_with,
            },
            "ran": f"tools/try_seed.sh {sid}/patch.diff {' '.join(checks)}   (git -C /repo apply; ./check <id> --tier quick; git -C /repo checkout -- .)",
            "detected_by": {c: {"detected": det.get(c, {}).get("exit") == 1, "violation_keys": keys.get(c, [])} for c in checks},
        }
        json.dump(meta, open(f"{dst}/meta.json", "w"), indent=1)
        print(sid, "kept;", {c: det.get(c, {}).get("exit") for c in checks})

main()
