#!/usr/bin/env python3
"""Rewrites the table between the BOUNDS-TABLE markers in DESIGN.md from evidence files:
quick tier from /verif/evidence, thorough tier from the directory given as argv[1] (evidence written
by `VERIF_EVIDENCE_DIR=<dir> ./check <id> --tier thorough`)."""
import json, re, sys, os
tdir = sys.argv[1] if len(sys.argv) > 1 else '/verif/evidence-thorough'
rows = []
for i in range(1, 21):
    pid = f"C{i:02d}"
    q = json.load(open(f"/verif/evidence/{pid}.json"))
    t = json.load(open(f"{tdir}/{pid}.json")) if os.path.exists(f"{tdir}/{pid}.json") else None
    def cell(e):
        if not e: return "-"
        c = e["coverage"]
        return f"{c['evaluations']:,} exec / {c['states']:,} states / {c['transitions']:,} trans / {e['wall_s']:.0f} s" + ("" if c.get("exhaustive") else " (cap hit)")
    rows.append(f"| {pid} | {q['coverage']['engine']} | {cell(q)} | {cell(t)} |")
table = "| property | engine | quick (executions / states / transitions / wall) | thorough |\n|---|---|---|---|\n" + "\n".join(rows) + "\n"
s = open('/verif/DESIGN.md').read()
s2 = re.sub(r"(<!-- BOUNDS-TABLE-BEGIN -->\n).*?(<!-- BOUNDS-TABLE-END -->)", lambda m: m.group(1) + table + m.group(2), s, flags=re.S)
open('/verif/DESIGN.md', 'w').write(s2)
print("ok")
