#!/bin/bash
# Applies every behaviour-preserving change in /verif/benign to /repo in turn and runs ALL quick
# checks: every one must stay silent (exit 0). A non-zero exit here is a false alarm of a check.
set -u
cd /verif
FAIL=0
for P in ${@:-benign/*.diff}; do
  cd /repo; [ -z "$(git status --porcelain)" ] || { echo "/repo not clean"; exit 2; }
  git apply "/verif/$P" || { echo "$P does not apply"; FAIL=1; continue; }
  cd /verif
  BAD=""
  for ID in ${CHECKS:-$(seq -f "C%02g" 1 20)}; do
    OUT=$(./check $ID --tier quick 2>&1); RC=$?
    [ $RC -ne 0 ] && BAD="$BAD $ID(rc=$RC: $(echo "$OUT" | grep -E '^# ' | head -2 | tr '\n' ' '))"
  done
  git -C /repo checkout -- .
  if [ -n "$BAD" ]; then echo "FALSE ALARM  $P :$BAD"; FAIL=1; else echo "silent       $P"; fi
done
exit $FAIL
