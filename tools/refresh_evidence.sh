#!/bin/bash
# Rewrites every evidence/<id>.json from a QUICK run on the unchanged /repo tree (what a fresh
# restore produces). Run before committing: try_seed / thorough runs leave other evidence behind.
cd /verif || exit 2
[ -z "$(git -C /repo status --short)" ] || { echo "/repo is not clean"; exit 2; }
rc=0
for i in $(seq -w 1 20); do
  ./check C$i --tier quick 2>&1 | grep -E "^C$i \[|VIOLATION|KNOWN-FINDING" | cut -c1-200
  [ ${PIPESTATUS[0]} -eq 0 ] || { echo "C$i rc!=0"; rc=1; }
done
exit $rc
