#!/usr/bin/env python3
"""Systematic mutation run of /repo/src against the registered checks (a detection experiment, not a
registered check).

  tools/mutants.py gen                 enumerate mutants of /repo/src -> $MUT/all.jsonl
  tools/mutants.py screen [-j N]       discard mutants that do not build or that the repository's own
                                       suite kills (cargo test --lib --tests in a scratch worktree)
  tools/mutants.py check [-j N]        run the quick checks relevant to the mutated file (then all
                                       others) against each survivor, from a scratch copy of the
                                       harness whose path dependency points at the scratch worktree
  tools/mutants.py report              summary + list of mutants no check caught

Everything lives under $MUT (default /var/tmp/mut); /repo itself is never modified. Mutants are
single-token / single-statement edits (relational and arithmetic operators, constants +-1, boolean
flips, min/max, take/clone, statement deletion ...). A mutant that survives every check is either
equivalent (behaviour-preserving) or a gap; the survivors are read by hand.
"""
import json, os, re, subprocess, sys, hashlib, shutil, time
from concurrent.futures import ThreadPoolExecutor

MUT = os.environ.get("MUT", "/var/tmp/mut")
REPO = "/repo"
FILES = ["range.rs", "etag.rs", "serving.rs", "body.rs", "chunker.rs", "gzip.rs", "lib.rs", "file.rs", "platform.rs", "dir.rs"]
RELEVANT = {  # cheapest and broadest first: the run stops at the first check that catches the mutant
    "range.rs": ["C03", "C02", "C13", "C06", "C05", "C01"],
    "etag.rs": ["C05", "C14", "C13", "C04"],
    "serving.rs": ["C02", "C03", "C05", "C06", "C07", "C14", "C13", "C04", "C15", "C20", "C01", "C12"],
    "body.rs": ["C07", "C02", "C20", "C01", "C12"],
    "chunker.rs": ["C11", "C08", "C10", "C20", "C09", "C12"],
    "gzip.rs": ["C11", "C17", "C09", "C08"],
    "lib.rs": ["C16", "C17", "C19", "C13", "C15"],
    "file.rs": ["C18"],
    "platform.rs": ["C18"],
    "dir.rs": ["C19"],
}
ALL = [f"C{i:02d}" for i in range(1, 21)]


def sh(cmd, timeout=None, env=None, cwd=None):
    e = dict(os.environ)
    e["CARGO_NET_OFFLINE"] = "true"
    if env:
        e.update(env)
    # own process group, killed as a whole on timeout (a hung test binary must not be left behind)
    import signal
    p = subprocess.Popen(cmd, shell=True, stdout=subprocess.PIPE, stderr=subprocess.STDOUT, text=True, env=e, cwd=cwd, start_new_session=True)
    try:
        out, _ = p.communicate(timeout=timeout)
        return p.returncode, out
    except subprocess.TimeoutExpired:
        try:
            os.killpg(p.pid, signal.SIGKILL)
        except ProcessLookupError:
            pass
        out, _ = p.communicate()
        return 124, out or ""


def mask(line):
    """Blanks out string/char literal contents and trailing // comments (same length)."""
    out = []
    i = 0
    n = len(line)
    while i < n:
        c = line[i]
        if c == '/' and line[i:i + 2] == '//':
            out.append(' ' * (n - i))
            break
        if c == '"':
            j = i + 1
            while j < n and line[j] != '"':
                j += 2 if line[j] == '\\' else 1
            out.append('"' + '_' * (min(j, n) - i - 1) + ('"' if j < n else ''))
            i = j + 1
            continue
        if c == "'" and re.match(r"'(\\.|[^\\'])'", line[i:]):
            m = re.match(r"'(\\.|[^\\'])'", line[i:])
            out.append("'" + '_' * (len(m.group(0)) - 2) + "'")
            i += len(m.group(0))
            continue
        out.append(c)
        i += 1
    return ''.join(out)[:n].ljust(n)


TOKEN_OPS = [
    (r' <= ', [' < ']), (r' >= ', [' > ']), (r' < ', [' <= ']), (r' > ', [' >= ']),
    (r' == ', [' != ']), (r' != ', [' == ']),
    (r' && ', [' || ']), (r' \|\| ', [' && ']),
    (r' \+ 1\b', ['', ' + 2']), (r' - 1\b', ['', ' - 2']),
    (r' \+ ', [' - ']), (r' - ', [' + ']), (r' \+= ', [' -= ']), (r' -= ', [' += ']),
    (r' << ', [' >> ']), (r' >> ', [' << ']), (r' \| 1\b', ['']), (r' & 1\b', [' & 2']),
    (r'\btrue\b', ['false']), (r'\bfalse\b', ['true']),
    (r'\.is_some\(\)', ['.is_none()']), (r'\.is_none\(\)', ['.is_some()']),
    (r'\.is_empty\(\)', ['.is_empty() == false']),
    (r'\bif !', ['if ']),
    (r'\bmin\(', ['max(']), (r'\bmax\(', ['min(']),
    (r'saturating_add', ['wrapping_add']), (r'saturating_sub', ['wrapping_sub']),
    (r'\.take\(\)', ['.clone()']), (r'pop_front', ['pop_back']), (r'push_back', ['push_front']),
    (r'starts_with', ['ends_with']), (r'ends_with', ['starts_with']),
    (r'trim_start_matches', ['trim_end_matches', 'trim_matches']),
    (r'Poll::Pending', ['Poll::Ready(None)']),
    (r'\bcontinue\b', ['break']),
    (r'weak_eq', ['strong_eq']), (r'strong_eq', ['weak_eq']),
    (r'any_match', ['none_match']),
    (r'IF_MODIFIED_SINCE', ['IF_UNMODIFIED_SINCE']), (r'IF_UNMODIFIED_SINCE', ['IF_MODIFIED_SINCE']),
    (r'Method::HEAD', ['Method::GET']),
    (r'as_secs\(\)', ['as_secs() + 1']), (r'subsec_nanos\(\)', ['subsec_micros()', 'subsec_millis()']),
    (r'\.len\(\)', ['.len() + 1']),
    (r'\.start\b', ['.end']), (r'\.end\b', ['.start']),
    (r'Some\(Ok\(', ['Some(Err(']),
    (r'\.ok_or\(', ['.or(Some(0)).ok_or(']),
]


def test_mod_start(lines):
    for i, l in enumerate(lines):
        if l.strip() == '#[cfg(test)]' and i + 1 < len(lines) and lines[i + 1].startswith('mod tests'):
            return i
    return len(lines)


def skip_lines(fname, lines):
    skip = set()
    end = test_mod_start(lines)
    skip.update(range(end, len(lines)))
    # items under #[cfg(windows)] / #[cfg(test)] (not compiled here): skip to the end of the item
    i = 0
    while i < end:
        if lines[i].strip() in ('#[cfg(windows)]', '#[cfg(test)]', '#[cfg(not(feature = "verif-hooks"))]'):
            depth = 0
            started = False
            j = i
            while j < end:
                depth += mask(lines[j]).count('{') - mask(lines[j]).count('}')
                if '{' in mask(lines[j]):
                    started = True
                skip.add(j)
                if (started and depth == 0) or (not started and mask(lines[j]).rstrip().endswith(';')):
                    break
                j += 1
            i = j
        i += 1
    return skip


def gen():
    os.makedirs(MUT, exist_ok=True)
    out = []
    seen = set()
    for fname in FILES:
        path = f"{REPO}/src/{fname}"
        lines = open(path).read().split('\n')
        skip = skip_lines(fname, lines)
        in_macro_rules = False
        for ln, line in enumerate(lines):
            s = line.strip()
            if ln in skip or not s or s.startswith('//') or s.startswith('#[') or s.startswith('use ') or s.startswith('#!['):
                continue
            m = mask(line)
            cands = []
            for pat, reps in TOKEN_OPS:
                for mm in re.finditer(pat, m):
                    for rep in reps:
                        cands.append((pat, line[:mm.start()] + rep + line[mm.end():]))
            # integer literals
            for mm in re.finditer(r'(?<![\w.])(\d[\d_]*)(?![\w.]|\.\d)', m):
                txt = mm.group(1)
                try:
                    v = int(txt.replace('_', ''))
                except ValueError:
                    continue
                for nv in ([v + 1] + ([v - 1] if v > 0 else [])):
                    cands.append(('int', line[:mm.start(1)] + str(nv) + line[mm.end(1):]))
            # statement deletion: a one-line statement
            if (re.match(r'^\s*[A-Za-z_*(]', line) and m.rstrip().endswith(';')
                    and not re.match(r'^\s*(let|use|return|type|const|static|pub|fn|impl|struct|enum|mod|break|continue)\b', line)
                    and m.count('(') == m.count(')') and m.count('{') == m.count('}')):
                cands.append(('del', re.match(r'^\s*', line).group(0) + '/* deleted */'))
            if re.match(r'^\s*return\b.*;\s*$', m) and m.count('(') == m.count(')'):
                pass
            for op, new in cands:
                if new == line:
                    continue
                key = (fname, ln, new)
                if key in seen:
                    continue
                seen.add(key)
                mid = hashlib.sha1(repr(key).encode()).hexdigest()[:10]
                out.append({"id": mid, "file": fname, "line": ln + 1, "op": op, "before": line, "after": new})
    with open(f"{MUT}/all.jsonl", "w") as f:
        for o in out:
            f.write(json.dumps(o) + "\n")
    by = {}
    for o in out:
        by[o["file"]] = by.get(o["file"], 0) + 1
    print(len(out), "mutants", by)


def load(name):
    p = f"{MUT}/{name}"
    if not os.path.exists(p):
        return []
    return [json.loads(l) for l in open(p) if l.strip()]


def worker_dir(k):
    return f"{MUT}/w{k}"


def setup_worker(k, with_harness):
    w = worker_dir(k)
    if not os.path.isdir(f"{w}/repo"):
        os.makedirs(w, exist_ok=True)
        rc, o = sh(f"git -C {REPO} worktree add --detach {w}/repo HEAD")
        assert rc == 0, o
        sh(f"cp -r {REPO}/target {w}/repo/target")
    sh("git checkout -- .", cwd=f"{w}/repo")
    if with_harness and not os.path.isdir(f"{w}/harness"):
        sh(f"cp -r /verif/harness {w}/harness")
        ct = open(f"{w}/harness/Cargo.toml").read().replace('path = "/repo"', f'path = "{w}/repo"')
        open(f"{w}/harness/Cargo.toml", "w").write(ct)
        os.makedirs(f"{w}/harness/.cargo", exist_ok=True)
        open(f"{w}/harness/.cargo/config.toml", "w").write(f'[net]\noffline = true\n[build]\ntarget-dir = "{w}/target"\n')
        if not os.path.isdir(f"{w}/target"):
            sh(f"mkdir -p {w}/target && cp -r /verif/target/release {w}/target/release")
    if with_harness:
        # keep the harness copy in step with /verif/harness/src
        sh(f"rsync -a --delete /verif/harness/src/ {w}/harness/src/")


def apply_mutant(k, m):
    p = f"{worker_dir(k)}/repo/src/{m['file']}"
    lines = open(p).read().split('\n')
    assert lines[m['line'] - 1] == m['before'], (m, lines[m['line'] - 1])
    lines[m['line'] - 1] = m['after']
    open(p, 'w').write('\n'.join(lines))


def revert(k):
    sh("git checkout -- .", cwd=f"{worker_dir(k)}/repo")


def screen_one(k, m):
    apply_mutant(k, m)
    repo = f"{worker_dir(k)}/repo"
    try:
        rc, o = sh("cargo check --offline --lib --features dir,verif-hooks -q", cwd=repo, timeout=300)
        if rc != 0:
            return "nobuild"
        rc, o = sh("cargo test --offline --lib --tests -q -- --test-threads 4", cwd=repo, timeout=240)
        if rc == 124:
            return "suite-hang"
        if rc != 0:
            return "suite-killed"
        return "survivor"
    finally:
        revert(k)


def pool_run(items, nworkers, fn, outname, with_harness):
    done = {r["id"] for r in load(outname)}
    todo = [m for m in items if m["id"] not in done]
    print(f"{len(todo)} to do, {len(done)} done", flush=True)
    import queue, threading
    q = queue.Queue()
    for m in todo:
        q.put(m)
    lock = threading.Lock()

    def run(k):
        setup_worker(k, with_harness)
        while True:
            try:
                m = q.get_nowait()
            except queue.Empty:
                return
            t0 = time.time()
            try:
                res = fn(k, m)
            except Exception as e:  # noqa
                res = {"status": f"tool-error: {e!r}"} if with_harness else f"tool-error: {e!r}"
                revert(k)
            rec = dict(m)
            if isinstance(res, dict):
                rec.update(res)
            else:
                rec["status"] = res
            rec["secs"] = round(time.time() - t0, 1)
            with lock:
                with open(f"{MUT}/{outname}", "a") as f:
                    f.write(json.dumps(rec) + "\n")
                print(rec["id"], rec["file"], rec["line"], rec["op"], rec.get("status"), rec.get("caught_by", ""), rec["secs"], flush=True)

    ths = [threading.Thread(target=run, args=(k,)) for k in range(nworkers)]
    for t in ths:
        t.start()
    for t in ths:
        t.join()


def mutant_patch(m):
    """Writes the mutant as a unified diff (so that tools/par_try.py can apply it) and returns its path."""
    os.makedirs(f"{MUT}/patches", exist_ok=True)
    path = f"{MUT}/patches/{m['id']}.diff"
    if not os.path.exists(path):
        # the committed file, not the working tree (which other tools patch temporarily)
        src = subprocess.run(["git", "-C", REPO, "show", f"HEAD:src/{m['file']}"], capture_output=True, text=True).stdout.split('\n')
        assert src[m['line'] - 1] == m['before'], m
        new = list(src)
        new[m['line'] - 1] = m['after']
        import difflib
        d = difflib.unified_diff([l + '\n' for l in src], [l + '\n' for l in new], f"a/src/{m['file']}", f"b/src/{m['file']}", n=3)
        txt = ''.join(d)
        # the split on '\n' leaves a last empty element when the file ends with a newline
        txt = txt.replace('\n\\ No newline at end of file', '')
        open(path, 'w').write(txt)
    return path


def check_one_pt(w, m):
    """One surviving mutant against the quick checks relevant to the mutated file (./check through
    tools/par_try.py: scratch worktree, loomchk included for C10/C11)."""
    import par_try
    r = par_try.run_checks(w, mutant_patch(m), RELEVANT[m["file"]], True)
    rec = dict(m)
    if r["status"] != "ran":
        rec.update({"status": r["status"], "log": r.get("log")})
        return rec
    caught = [c for c, v in r["checks"].items() if v["rc"] == 1]
    odd = {c: v for c, v in r["checks"].items() if v["rc"] not in (0, 1)}
    rec["ran"] = [[c, v["rc"]] for c, v in r["checks"].items()]
    if caught:
        rec.update({"status": "caught", "caught_by": caught[0], "keys": r["checks"][caught[0]]["keys"]})
    elif odd:
        rec.update({"status": "machinery", "caught_by": sorted(odd)[0], "log": list(odd.values())[0].get("log")})
    else:
        rec["status"] = "MISSED"
    rec["id"] = m["id"]
    rec["verdict"] = rec["status"] + " " + str(rec.get("caught_by", ""))
    return rec


def report():
    allm = load("all.jsonl")
    scr = load("screen.jsonl")
    chk = load("check.jsonl")
    from collections import Counter
    print("mutants:", len(allm))
    print("screen:", Counter(r["status"] for r in scr))
    print("check:", Counter(r["status"] for r in chk))
    print("caught by:", Counter(r.get("caught_by") for r in chk if r["status"] == "caught"))
    for r in chk:
        if r["status"] not in ("caught",):
            print(f"--- {r['status']} {r['id']} {r['file']}:{r['line']} [{r['op']}]\n  - {r['before'].strip()}\n  + {r['after'].strip()}")
            if r.get("log"):
                print("    log:", r["log"][-300:].replace("\n", "\n    "))


def main():
    cmd = sys.argv[1]
    n = 4
    if "-j" in sys.argv:
        n = int(sys.argv[sys.argv.index("-j") + 1])
    only = None
    if "--files" in sys.argv:
        only = sys.argv[sys.argv.index("--files") + 1].split(",")
    if cmd == "gen":
        gen()
    elif cmd == "screen":
        items = [m for m in load("all.jsonl") if not only or m["file"] in only]
        pool_run(items, n, screen_one, "screen.jsonl", False)
    elif cmd == "check":
        sys.path.insert(0, os.path.dirname(os.path.abspath(__file__)))
        import par_try
        par_try.PT = MUT
        done = {r["id"] for r in load("check.jsonl")}
        items = [m for m in load("screen.jsonl") if m["status"] == "survivor" and (not only or m["file"] in only) and m["id"] not in done]
        print(len(items), "survivors to check", flush=True)
        par_try.pool(items, n, check_one_pt, "check.jsonl")
    elif cmd == "report":
        report()
    elif cmd == "clean":
        for d in sorted(os.listdir(MUT)):
            if re.match(r"w\d+$", d):
                sh(f"git -C {REPO} worktree remove --force {MUT}/{d}/repo")
                shutil.rmtree(f"{MUT}/{d}", ignore_errors=True)
        sh(f"git -C {REPO} worktree prune")


main()
