import json
props={}
for l in open('/verif/properties.jsonl'):
    d=json.loads(l); props[d['id']]=d
pairs={'A':['C01','C12'],'B':['C02','C06'],'C':['C03','C05'],'D':['C04','C13'],'E':['C07','C14'],'F':['C15','C17'],'G':['C08','C11'],'H':['C09','C10'],'I':['C16','C20'],'J':['C18','C19']}
T=open('/verif/tools/seed_prompts/template_round10_A.txt').read()  # head and tail of the prompt are cut out of this file
head=T[:T.index('THE PROPERTIES')]
tail_start=T.index('WHAT TO DELIVER')
tail_end=T.index('ALREADY USED in earlier rounds')
tail=T[tail_start:tail_end]
final=T[T.index("Read the crate's source first"):]
for k,(p,q) in pairs.items():
    s=head.replace('r10-A','r12-'+k).replace('/tmp/seeds10/A/','/tmp/seeds12/'+k+'/')
    s+='THE PROPERTIES (verbatim from the specification the checkers are written against)\n\n'
    for pid in (p,q):
        d=props[pid]
        s+=f"[{pid}] {d['title']}\nStatement: {d['statement']}\nQuantifier: {d['quantifier']['text']}\nCode anchors: {', '.join(d['anchors']['files'])}\n\n"
    s+=tail.replace('/tmp/seeds10/A/','/tmp/seeds12/'+k+'/')
    s+="Be original: the first idea that comes to mind has most likely been tried before; look for the second or third.\n\n"
    s+=final.replace('/tmp/seeds10/A/','/tmp/seeds12/'+k+'/')
    open(f'/tmp/seeds12/prompts/{k}.txt','w').write(s)
    import os
    for i in '123': os.makedirs(f'/tmp/seeds12/{k}/{i}',exist_ok=True)
