#!/bin/bash
# Re-applies every kept seed to /repo and requires the quick check of its property to report a
# violation (exit 1). Prints one line per seed; exits non-zero if any seed is no longer caught.
cd /verif
FAIL=0
for D in ${@:-seeded/*/}; do
  P=$(python3 -c "import json,sys;print(json.load(open('$D/meta.json'))['property'])")
  OUT=$(tools/try_seed.sh /verif/$D/patch.diff $P 2>&1)
  RC=$(echo "$OUT" | sed -n 's/^== C[0-9]* rc=\([0-9]*\).*/\1/p' | head -1)
  if [ "$RC" = "1" ]; then echo "caught   $D ($P)"; else echo "MISSED   $D ($P) rc=$RC"; FAIL=1; fi
done
exit $FAIL
